import json,sys
v=json.load(open(sys.argv[1]))
print('\n'.join(v['violation']))
for k in ('prelude',):
    if v['program'].get(k): print('PRELUDE', json.dumps(v['program'][k]))
for t in v['program']['tasks']: print('TASK', json.dumps(t))
print('EPILOGUE', json.dumps(v['program'].get('epilogue')))
print('tape', v['tape'], 'orig ops', v['original_ops'], 'orig tape', v['original_tape_len'], 'shrink runs', v['shrink_runs'])
c=v['program']['cfg']
print({k:c[k] for k in c if k not in ('quanta','faults','strategy','pstay','pcontention','pct_depth','pct_horizon','max_steps','padvance')}, c['faults'])
n=int(sys.argv[2]) if len(sys.argv)>2 else 120
print('\n'.join(v['history'][:n]))
if len(sys.argv)>3: print('\n'.join(v['trace'][:int(sys.argv[3])]))
