#!/bin/bash
# Builds the framework's own tools from files on disk only (offline).
set -e
V="$(cd "$(dirname "$0")" && pwd)"
export GOFLAGS=-mod=mod GOPROXY=off GOSUMDB=off GOTOOLCHAIN=local
mkdir -p "$V/bin"
( cd "$V/simgen" && go1.26.8 build -o "$V/bin/simgen" . )
( cd "$V/cmd/check" && go1.26.8 build -o "$V/bin/check" . )
# warm the build cache: one instrumented build of the current tree
S="$(mktemp -d /tmp/verif-setup-XXXXXX)"
"$V/build.sh" "$S" >/dev/null 2>&1 || true
rm -rf "$S"
echo "setup done"
