package harness

import (
	"fmt"
	"math"
	"time"

	tally "github.com/uber-go/tally/v4"
)

// The bucket constructors (C20, first sentence). They are pure functions of
// their arguments: nothing here depends on the schedule, and no coverage of the
// argument space beyond seeded, boundary-biased generation is claimed. The op
// is run from the workload tasks like any other.
//
//	Name: "linv" "lind" "expv" "expd"   N: n
//	I:    start (ns for durations, float64 bits for values)
//	F:    width (ns for lind) or width/factor as float64 bits

func genCtorOp(g *Gen) Op {
	op := Op{K: "ctor", Name: pick(g, "linv", "lind", "expv", "expd", "expd", "expd")}
	op.N = pick(g, 1, 2, 3, 5, 8, 12, 0, -1)
	switch op.Name {
	case "linv":
		op.I = int64(f64bits(pick(g, 0.0, 1, -2.5, 100, 0.5)))
		op.F = f64bits(pick(g, 1.0, 0.5, 2, 10, 0.25))
	case "lind":
		op.I = pick(g, int64(0), int64(1), int64(1e6), int64(-5), int64(1e9))
		op.F = uint64(pick(g, int64(1), int64(7), int64(1e6), int64(1e9)))
	case "expv":
		// exactly representable products, so that every reading of "times factor" agrees
		op.I = int64(f64bits(pick(g, 1.0, 0.5, 3, 1024, 0, -1)))
		op.F = f64bits(pick(g, 2.0, 1.5, 1.25, 4, 1, 0.5))
	case "expd":
		op.I = pick(g, int64(1), int64(3), int64(7), int64(1e3), int64(1e6), int64(1e6+1), int64(1e9), int64(0), int64(-1))
		op.F = f64bits(pick(g, 2.0, 1.5, 1.1, 1.3333333333, 1.25, 2.5, 10, 1, 0.9))
	}
	return op
}

type ctorResult struct {
	vals    []float64
	durs    []int64
	err     string
	mustPan bool
}

func (te *taskEnv) execCtor(op *Op, rec *OpRec) {
	res := &ctorResult{}
	must := func(f func()) {
		defer func() {
			if r := recover(); r != nil {
				res.mustPan = true
			}
		}()
		f()
	}
	same := true
	switch op.Name {
	case "linv":
		start, width := f64from(uint64(op.I)), f64from(op.F)
		b, err := tally.LinearValueBuckets(start, width, op.N)
		if err != nil {
			res.err = err.Error()
		}
		res.vals = append(res.vals, b...)
		must(func() {
			m := tally.MustMakeLinearValueBuckets(start, width, op.N)
			same = fmt.Sprint([]float64(m)) == fmt.Sprint([]float64(b))
		})
	case "lind":
		b, err := tally.LinearDurationBuckets(time.Duration(op.I), time.Duration(op.F), op.N)
		if err != nil {
			res.err = err.Error()
		}
		for _, d := range b {
			res.durs = append(res.durs, int64(d))
		}
		must(func() {
			m := tally.MustMakeLinearDurationBuckets(time.Duration(op.I), time.Duration(op.F), op.N)
			same = fmt.Sprint(m.AsDurations()) == fmt.Sprint(b.AsDurations())
		})
	case "expv":
		start, factor := f64from(uint64(op.I)), f64from(op.F)
		b, err := tally.ExponentialValueBuckets(start, factor, op.N)
		if err != nil {
			res.err = err.Error()
		}
		res.vals = append(res.vals, b...)
		must(func() {
			m := tally.MustMakeExponentialValueBuckets(start, factor, op.N)
			same = fmt.Sprint([]float64(m)) == fmt.Sprint([]float64(b))
		})
	case "expd":
		b, err := tally.ExponentialDurationBuckets(time.Duration(op.I), f64from(op.F), op.N)
		if err != nil {
			res.err = err.Error()
		}
		for _, d := range b {
			res.durs = append(res.durs, int64(d))
		}
		must(func() {
			m := tally.MustMakeExponentialDurationBuckets(time.Duration(op.I), f64from(op.F), op.N)
			same = fmt.Sprint(m.AsDurations()) == fmt.Sprint(b.AsDurations())
		})
	}
	if !same && !res.mustPan {
		rec.Err = "the Must variant returned different bounds than the plain variant"
	}
	rec.Extra = res
}

// checkCtors: exactly n bounds that start at start and follow the recurrence
// (each element is its predecessor plus width / times factor; for durations,
// which are whole nanoseconds, within one nanosecond of the product whatever the
// rounding); n <= 0, exponential start <= 0 and factor <= 1 are rejected; the
// Must variant panics exactly when the plain variant returns an error.
func checkCtors(env *Env, ops []*OpRec) []Violation {
	var out []Violation
	for _, r := range ops {
		res, _ := r.Extra.(*ctorResult)
		if r.Op.K != "ctor" || res == nil || r.Ret == 0 {
			continue
		}
		env.Probes.inc("constructor_calls")
		op := r.Op
		if r.Err != "" {
			out = append(out, vf("constructor", "%s: %s", op.String(), r.Err))
		}
		exp := op.Name == "expv" || op.Name == "expd"
		wantErr := op.N <= 0
		if exp {
			startPos := op.I > 0
			if op.Name == "expv" {
				startPos = f64from(uint64(op.I)) > 0
			}
			wantErr = wantErr || !startPos || !(f64from(op.F) > 1)
		}
		if wantErr != (res.err != "") {
			out = append(out, vf("constructor", "%s: error expected %v, got %q", op.String(), wantErr, res.err))
			continue
		}
		if wantErr != res.mustPan {
			out = append(out, vf("constructor", "%s: plain variant error=%v but Must variant panicked=%v", op.String(), wantErr, res.mustPan))
		}
		if wantErr {
			continue
		}
		// "all constructor arguments in range": a series that leaves the range of
		// its type (int64 nanoseconds, finite float64) is outside the statement
		switch op.Name {
		case "expd":
			if float64(op.I)*math.Pow(f64from(op.F), float64(op.N)) > 4e18 {
				continue
			}
		case "expv":
			if f64from(uint64(op.I))*math.Pow(f64from(op.F), float64(op.N)) > 1e300 {
				continue
			}
		case "lind":
			if math.Abs(float64(op.I))+float64(op.N)*float64(int64(op.F)) > 4e18 {
				continue
			}
		}
		env.Probes.inc("constructor_series_checked")
		n := len(res.vals) + len(res.durs)
		if n != op.N {
			out = append(out, vf("constructor", "%s returned %d bounds", op.String(), n))
			continue
		}
		bad := func(i int, got, want interface{}) {
			out = append(out, vf("constructor", "%s: bound %d is %v, the recurrence gives %v (all: %v%v)", op.String(), i, got, want, res.vals, res.durs))
		}
		switch op.Name {
		case "linv":
			start, width := f64from(uint64(op.I)), f64from(op.F)
			for i, v := range res.vals {
				if want := start + float64(i)*width; v != want { // exact for the generated (dyadic) arguments
					bad(i, v, want)
					break
				}
			}
		case "lind":
			for i, d := range res.durs {
				if want := op.I + int64(i)*int64(op.F); d != want {
					bad(i, d, want)
					break
				}
			}
		case "expv":
			factor := f64from(op.F)
			for i, v := range res.vals {
				want := f64from(uint64(op.I))
				if i > 0 {
					want = res.vals[i-1] * factor
				}
				if v != want {
					bad(i, v, want)
					break
				}
			}
		case "expd":
			factor := f64from(op.F)
			for i, d := range res.durs {
				if i == 0 {
					if d != op.I {
						bad(i, d, op.I)
						break
					}
					continue
				}
				want := float64(res.durs[i-1]) * factor
				if math.Abs(float64(d)-want) >= 1 {
					bad(i, d, want)
					break
				}
			}
		}
	}
	return out
}
