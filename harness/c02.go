package harness

func init() {
	register(&Property{
		ID:    "C02",
		Gen:   genC02,
		Check: checkC02,
		Interest: func(env *Env) bool {
			return env.Sim.Stats.Preemptions > 0 && (env.Probes.OverlapPasses > 0 || env.Probes.Custom["delivery_inside_update"] > 0)
		},
	})
}

// genC02Burst: a gauge that is updated a great many times between two report
// passes (a hot loop; nothing in the statement bounds the number of updates).
// The counts are the ones at which a narrow counter of updates comes round
// again. The burst runs while the main task is the only one alive, so it costs
// no scheduling decisions; with an interval of 0 the root's Close is the one
// report pass.
func genC02Burst(g *Gen, tier string) *Program {
	p := &Program{Prop: "C02"}
	c := &p.Cfg
	baseCfg(g, c)
	c.IntervalNs = 0
	c.Faults.SlowPct = 0
	g.schedule(c, 0)
	n := pick(g, 1<<16, 1<<16, 1<<17, 1<<16-1, 1<<16+1, 1<<8, 1<<15, 3<<16)
	p.Prelude = append(p.Prelude, Op{K: "gauge", S: 0, M: 1, Name: "burst"})
	if g.Bool(50) {
		p.Prelude = append(p.Prelude, Op{K: "upd", M: 1, F: f64bits(7.5)})
		n--
	}
	p.Prelude = append(p.Prelude, Op{K: "upd", M: 1, N: n, F: f64bits(1001.25)})
	p.Tasks = [][]Op{{{K: "yield"}}}
	settleEpilogue(g, p)
	return p
}

func genC02(g *Gen, tier string) *Program {
	if g.Intn(map[string]int{"quick": 600, "thorough": 300}[tier]) == 0 {
		return genC02Burst(g, tier)
	}
	p := &Program{Prop: "C02"}
	baseCfg(g, &p.Cfg)
	maxOps := 9
	if tier == "thorough" {
		maxOps = 16
	}
	// The statement is about one updating goroutine per gauge; a fifth of the
	// programs let several tasks update one gauge all the same. For those only
	// the clauses that do not depend on an order of the updates apply (every
	// delivered value was passed to Update; never more deliveries than updates).
	genWorkload(g, p, wlOpts{
		tasks: [2]int{1, 3}, ops: [2]int{3, maxOps}, scopes: 2,
		wDerive: 2, wGauge: 3, wUpd: 9, wClose: 2, wSleep: 1, wYield: 1, wCounter: 1, wInc: 1,
		reacquire: 80, closer: 35, ownGauge: !g.Bool(20),
	})
	if g.Bool(30) {
		// bystanders: tasks that ask for a gauge of another task at the same time
		// (concurrent first use) but never update it - the gauge keeps its single
		// updating goroutine, and whatever handle that goroutine was given must be
		// the one the report passes visit
		nt := len(p.Tasks)
		for ti := 0; ti < nt && len(p.Tasks) < 5; ti++ {
			var by []Op
			for _, op := range p.Tasks[ti] {
				if op.K == "sub" || op.K == "tag" {
					by = append(by, op)
				}
				if op.K == "gauge" {
					by = append(by, op)
					break
				}
			}
			if len(by) > 0 && by[len(by)-1].K == "gauge" && g.Bool(60) {
				for k := g.Intn(3); k > 0; k-- {
					by = append([]Op{{K: "yield"}}, by...)
				}
				p.Tasks = append(p.Tasks, by)
			}
		}
	}
	settleEpilogue(g, p)
	return p
}

type gaugeHist struct {
	name    string
	tags    map[string]string
	updates []*OpRec // in program order of the single updating task
	obl     []int
	tasks   map[int]bool
}

func checkC02(env *Env) []Violation {
	ops := env.OpsBeforeTeardown()
	dels := env.Deliveries()
	var out []Violation
	out = append(out, opPanics(ops, nil)...)
	ci := newCloseInfo(env, ops)
	env.Probes.OverlapPasses = overlapping(env.passes())

	gs := map[string]*gaugeHist{}
	alias := map[string]string{}
	for _, r := range ops {
		mv, _ := r.Obj.(*metricVar)
		if mv == nil || mv.kind != "gauge" {
			continue
		}
		k := idKey(mv.FullName, mv.Tags)
		h := gs[k]
		if h == nil {
			h = &gaugeHist{name: mv.FullName, tags: mv.Tags, tasks: map[int]bool{}}
			gs[k] = h
		}
		if mv.AltName != "" {
			alias[idKey(mv.AltName, mv.Tags)] = k
		}
		if r.Op.K == "upd" {
			ob := ci.obligation(mv, r)
			if ob == forbidden {
				continue
			}
			h.updates = append(h.updates, r)
			h.obl = append(h.obl, ob)
			h.tasks[r.Task] = true
		}
	}
	_, settled, haveSettle := opWindow(ops, "settle")
	idleFrom, idleTo, haveIdle := opWindow(ops, "idlepass")
	if !haveIdle || !haveSettle || idleFrom < settled {
		idleFrom, idleTo = inf, inf
	}
	count := map[string]int{}
	last := map[string]*Delivery{}
	for _, d := range dels {
		if d.Kind != EvGauge || env.isInternalID(d.Name, d.Tags) {
			continue
		}
		k := idKey(d.Name, d.Tags)
		if a, ok := alias[k]; ok && gs[k] == nil {
			k = a
		}
		h := gs[k]
		if h == nil {
			out = append(out, vf("unknown-identity", "gauge delivered under a name/tag set no handle has: %s", d.Ev))
			continue
		}
		// (a) bit-for-bit a value passed to Update by an update invoked earlier
		ok := false
		for _, u := range h.updates {
			if u.Inv < d.Ev.Seq && u.Op.F == d.F {
				ok = true
			}
			if u.Inv < d.Ev.Seq && d.Ev.Seq < u.Ret {
				env.Probes.inc("delivery_inside_update")
			}
		}
		if !ok {
			out = append(out, vf("invented-value", "gauge %q %v: delivered bits %#x (%v) were never passed to Update before the delivery", d.Name, d.Tags, d.F, f64from(d.F)))
		}
		count[k]++
		if !haveSettle || d.Ev.Seq < settled {
			last[k] = d
		}
		if d.Ev.Seq > idleFrom && d.Ev.Seq < idleTo {
			out = append(out, vf("idle-delivery", "gauge %q %v delivered again (%v) by a pass although it was not updated since its last delivery", d.Name, d.Tags, f64from(d.F)))
		}
	}
	// (d') "A gauge that has not been updated since it was last delivered is not
	// delivered again", at every point of the history and not only for the idle
	// pass of the epilogue. Read per update: one Update is never delivered twice.
	// A value is delivered more often than it was passed to Update although every
	// Update carrying it had returned before its first delivery (an Update still
	// in progress at a delivery may legitimately be picked up once more; a later
	// delivery with another value is a delivery of another update, not a repeat).
	type valKey struct {
		id string
		f  uint64
	}
	delsOf := map[valKey][]*Delivery{}
	var order []valKey
	for _, d := range dels {
		if d.Kind != EvGauge || env.isInternalID(d.Name, d.Tags) {
			continue
		}
		k := idKey(d.Name, d.Tags)
		if a, ok := alias[k]; ok && gs[k] == nil {
			k = a
		}
		if gs[k] == nil {
			continue
		}
		vk := valKey{k, d.F}
		if delsOf[vk] == nil {
			order = append(order, vk)
		}
		delsOf[vk] = append(delsOf[vk], d)
	}
	for _, vk := range order {
		h, ds := gs[vk.id], delsOf[vk]
		if len(h.tasks) > 1 || haveForbiddenUpdates(ci, ops, vk.id) {
			continue
		}
		n, allReturned := 0, true
		for _, u := range h.updates {
			if u.Op.F == vk.f {
				n++
				if u.Ret == 0 || u.Ret > ds[0].Ev.Seq {
					allReturned = false
				}
			}
		}
		if n > 0 && len(ds) > n && allReturned {
			out = append(out, vf("redelivered-without-update", "gauge %q %v: the value %v (bits %#x) was passed to Update %d time(s), every such Update had returned before its first delivery at #%d, and it was delivered %d times (again at #%d)",
				h.name, h.tags, f64from(vk.f), vk.f, n, ds[0].Ev.Seq, len(ds), ds[n].Ev.Seq))
		}
	}
	for k, h := range gs {
		// (b) never more deliveries than updates
		if count[k] > len(h.updates) {
			out = append(out, vf("too-many-deliveries", "gauge %q %v: %d deliveries for %d updates", h.name, h.tags, count[k], len(h.updates)))
		}
		// (c) after the settle step the reporter's most recent value is the last update
		if !haveSettle || len(h.tasks) != 1 {
			continue // the statement is about one updating goroutine per gauge
		}
		lastReq := -1
		for i, ob := range h.obl {
			if ob == required {
				lastReq = i
			}
		}
		if lastReq < 0 {
			continue
		}
		d := last[k]
		if d == nil {
			out = append(out, vf("lost-update", "gauge %q %v: updated %d times while live but never delivered once activity stopped and a report ran", h.name, h.tags, lastReq+1))
			continue
		}
		ok := false
		for i := lastReq; i < len(h.updates); i++ {
			if h.updates[i].Op.F == d.F {
				ok = true
			}
		}
		if !ok {
			out = append(out, vf("stale-value", "gauge %q %v: after updates stopped and a report pass completed the reporter's most recent value is %v (bits %#x) but the last update was %v (bits %#x)",
				h.name, h.tags, f64from(d.F), d.F, f64from(h.updates[lastReq].Op.F), h.updates[lastReq].Op.F))
		}
	}
	return out
}

// haveForbiddenUpdates reports whether the gauge identity was also updated
// through a handle of an inert scope (such updates are not in the ledger).
func haveForbiddenUpdates(ci *closeInfo, ops []*OpRec, key string) bool {
	for _, r := range ops {
		if mv, _ := r.Obj.(*metricVar); mv != nil && mv.kind == "gauge" && r.Op.K == "upd" && idKey(mv.FullName, mv.Tags) == key {
			if ci.obligation(mv, r) == forbidden {
				return true
			}
		}
	}
	return false
}
