package simrt

// Rand is a small self-contained PRNG (splitmix64) so that a seed means the
// same run on every Go version.
type Rand struct{ s uint64 }

// NewRand seeds a generator.
func NewRand(seed uint64) *Rand { return &Rand{s: seed} }

// Uint64 returns the next value.
//
//go:norace
func (r *Rand) Uint64() uint64 {
	r.s += 0x9e3779b97f4a7c15
	z := r.s
	z = (z ^ (z >> 30)) * 0xbf58476d1ce4e5b9
	z = (z ^ (z >> 27)) * 0x94d049bb133111eb
	return z ^ (z >> 31)
}

// Intn returns a value in [0, n).
//
//go:norace
func (r *Rand) Intn(n int) int {
	if n <= 1 {
		return 0
	}
	return int(r.Uint64() % uint64(n))
}

// SplitMix derives an independent seed from parts.
func SplitMix(parts ...uint64) uint64 {
	h := uint64(0x243f6a8885a308d3)
	for _, p := range parts {
		r := Rand{s: h ^ p}
		h = r.Uint64()
	}
	return h
}

// Chooser is the single source of every decision of a run. In generate mode
// decisions come from the PRNG and are recorded on the tape; in replay mode
// they are read back from a tape, an exhausted or out-of-range entry meaning 0
// (by construction the least surprising alternative).
type Chooser struct {
	R      *Rand
	Tape   []uint32
	replay bool
	in     []uint32
	pos    int
	// Overrun counts replayed decisions that were not on the tape or out of range.
	Overrun int
}

// NewChooser returns a generating chooser.
func NewChooser(seed uint64) *Chooser {
	return &Chooser{R: NewRand(seed), Tape: make([]uint32, 0, 4096)}
}

// NewReplay returns a chooser that replays tape.
func NewReplay(tape []uint32) *Chooser {
	return &Chooser{R: NewRand(0), replay: true, in: tape, Tape: make([]uint32, 0, len(tape)+64)}
}

// Replaying reports whether decisions come from a tape.
func (c *Chooser) Replaying() bool { return c.replay }

// Choose returns a decision in [0, n).
//
//go:norace
func (c *Chooser) Choose(n int, label string) int {
	return c.ChooseFunc(n, label, nil)
}

// ChooseFunc is Choose with a custom distribution for generate mode.
//
//go:norace
func (c *Chooser) ChooseFunc(n int, label string, gen func(r *Rand) int) int {
	if n <= 1 {
		return 0
	}
	var v int
	if c.replay {
		if c.pos < len(c.in) {
			v = int(c.in[c.pos])
		} else {
			c.Overrun++
		}
		c.pos++
		if v >= n {
			v = 0
			c.Overrun++
		}
	} else if gen != nil {
		v = gen(c.R)
	} else {
		v = c.R.Intn(n)
	}
	c.Tape = AppendNR(c.Tape, uint32(v))
	return v
}

// Pct returns true with probability p percent (0 on an exhausted tape).
//
//go:norace
func (c *Chooser) Pct(p int, label string) bool {
	if p <= 0 {
		return false
	}
	return c.ChooseFunc(2, label, func(r *Rand) int {
		if r.Intn(100) < p {
			return 1
		}
		return 0
	}) == 1
}

// Choose draws from the active run's chooser; outside a run it returns 0.
//
//go:norace
func Choose(n int, label string) int {
	if s := cur; s != nil {
		return s.Ch.Choose(n, label)
	}
	return 0
}
