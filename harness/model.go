package harness

import (
	"math"
	"sort"
	"strconv"
	"strings"
	"time"
	"unicode/utf8"
)

// Model is the reference model of naming, tagging and sanitising, written from
// the property statements (C04, C06), not from tally's source.
type Model struct {
	cfg *Config
	sep string
}

// NewModel builds the model for a configuration.
func NewModel(cfg *Config) *Model {
	m := &Model{cfg: cfg}
	sep := cfg.Separator
	if sep == "" {
		sep = "."
	}
	m.sep = m.sanName(sep)
	return m
}

func allowed(r rune, vc ValidChars) bool {
	for _, rg := range vc.Ranges {
		if r >= rg[0] && r <= rg[1] {
			return true
		}
	}
	for _, c := range vc.Chars {
		if c == r {
			return true
		}
	}
	return false
}

// sanitizeModel maps every rune that is not allowed, and every invalid byte, to
// the replacement rune; everything else is kept.
func sanitizeModel(s string, vc ValidChars, repl rune) string {
	var b strings.Builder
	for i := 0; i < len(s); {
		r, w := utf8.DecodeRuneInString(s[i:])
		if r == utf8.RuneError && w <= 1 {
			b.WriteRune(repl)
			i++
			continue
		}
		if allowed(r, vc) {
			b.WriteString(s[i : i+w])
		} else {
			b.WriteRune(repl)
		}
		i += w
	}
	return b.String()
}

func (m *Model) sanName(s string) string {
	if m.cfg.Sanitize == nil {
		return s
	}
	return sanitizeModel(s, m.cfg.Sanitize.Name, m.cfg.Sanitize.Repl)
}

func (m *Model) sanKey(s string) string {
	if m.cfg.Sanitize == nil {
		return s
	}
	return sanitizeModel(s, m.cfg.Sanitize.Key, m.cfg.Sanitize.Repl)
}

func (m *Model) sanValue(s string) string {
	if m.cfg.Sanitize == nil {
		return s
	}
	return sanitizeModel(s, m.cfg.Sanitize.Value, m.cfg.Sanitize.Repl)
}

func (m *Model) sanTags(t map[string]string) map[string]string {
	out := make(map[string]string, len(t))
	// later keys in sorted order win when two keys sanitise to the same key; the
	// generator avoids such collisions, the oracle treats them as ambiguous.
	keys := make([]string, 0, len(t))
	for k := range t {
		keys = append(keys, k)
	}
	sort.Strings(keys)
	for _, k := range keys {
		out[m.sanKey(k)] = m.sanValue(t[k])
	}
	return out
}

func (m *Model) join(prefix, name string) string {
	if prefix == "" {
		return name
	}
	return prefix + m.sep + name
}

// Root returns the model of the root scope.
func (m *Model) Root() *ScopeModel {
	return &ScopeModel{Prefix: m.sanName(m.cfg.Prefix), Tags: m.sanTags(m.cfg.RootTags)}
}

// Sub models SubScope(name).
func (m *Model) Sub(p *ScopeModel, name string) *ScopeModel {
	n := m.sanName(name)
	out := &ScopeModel{Prefix: m.join(p.Prefix, n), Tags: p.Tags, Depth: p.Depth + 1}
	if p.HasAlt {
		out.HasAlt, out.AltPrefix = true, m.join(p.AltPrefix, n)
	}
	if p.Prefix == "" && n == "" {
		// "root prefix and the subscope names in order joined by the separator":
		// the empty name may or may not count as a component
		out.HasAlt, out.AltPrefix = true, m.sep
		if p.HasAlt {
			out.AltPrefix = p.AltPrefix + m.sep
		}
	}
	return out
}

// Tagged models Tagged(tags).
func (m *Model) Tagged(p *ScopeModel, tags map[string]string) *ScopeModel {
	t := make(map[string]string, len(p.Tags)+len(tags))
	for k, v := range p.Tags {
		t[k] = v
	}
	for k, v := range m.sanTags(tags) {
		t[k] = v
	}
	return &ScopeModel{Prefix: p.Prefix, Tags: t, AltPrefix: p.AltPrefix, HasAlt: p.HasAlt, Depth: p.Depth + 1}
}

// MetricName models the delivered name of a metric.
func (m *Model) MetricName(s *ScopeModel, name string) (string, string) {
	n := m.sanName(name)
	full := m.join(s.Prefix, n)
	alt := ""
	if s.HasAlt {
		alt = s.AltPrefix + m.sep + n
		if s.AltPrefix == "" {
			alt = n
		}
	}
	return full, alt
}

// idKey is an injective key for name + tags (unlike tally's own key format it
// length-prefixes every component).
func idKey(name string, tags map[string]string) string {
	keys := make([]string, 0, len(tags))
	for k := range tags {
		keys = append(keys, k)
	}
	sort.Strings(keys)
	var b strings.Builder
	b.WriteString(strconv.Itoa(len(name)))
	b.WriteByte(':')
	b.WriteString(name)
	for _, k := range keys {
		v := tags[k]
		b.WriteByte('|')
		b.WriteString(strconv.Itoa(len(k)))
		b.WriteByte(':')
		b.WriteString(k)
		b.WriteByte('=')
		b.WriteString(strconv.Itoa(len(v)))
		b.WriteByte(':')
		b.WriteString(v)
	}
	return b.String()
}

var cardinalityNames = []string{"tally.internal.counter_cardinality", "tally.internal.gauge_cardinality", "tally.internal.histogram_cardinality", "tally.internal.num_active_scopes"}

// isInternal recognises the library's own metrics: the cardinality gauges by
// their documented names mapped through the model sanitiser, and the M3
// reporter's self metrics by prefix.
func (env *Env) isInternal(name string) bool {
	for _, n := range cardinalityNames {
		if name == env.Model.sanName(n) {
			return true
		}
	}
	return isInternalName(name)
}

// isInternalID is isInternal made precise: the cardinality gauges carry the
// built-in tags (plus the configured cardinality tags), mapped through the
// model sanitiser; a user metric whose sanitised name happens to coincide with
// a cardinality gauge's name is told apart by its tags.
func (env *Env) isInternalID(name string, tags map[string]string) bool {
	if isInternalName(name) && env.Prog.Cfg.Sanitize == nil {
		return true
	}
	if !env.isInternal(name) {
		return false
	}
	want := map[string]string{
		env.Model.sanKey("version"):  "",
		env.Model.sanKey("host"):     env.Model.sanValue("global"),
		env.Model.sanKey("instance"): env.Model.sanValue("global"),
	}
	for k, v := range env.Prog.Cfg.CardTags {
		want[env.Model.sanKey(k)] = env.Model.sanValue(v)
	}
	if len(tags) != len(want) {
		return isInternalName(name) && env.Prog.Cfg.Stack != "plain" && env.Prog.Cfg.Stack != "cached" && env.Prog.Cfg.Stack != "both"
	}
	for k, v := range want {
		got, ok := tags[k]
		if !ok || (v != "" && got != v && k != env.Model.sanKey("version")) {
			return false
		}
	}
	return true
}

func isInternalName(name string) bool {
	// tally's own cardinality metrics and the M3 reporter's self metrics, by
	// their documented names; a sanitiser may have replaced '.', '-' or '_'.
	const p = "tally.internal."
	if len(name) < len(p) {
		return false
	}
	for i := 0; i < len(p); i++ {
		c := name[i]
		if p[i] == '.' {
			if c >= 'a' && c <= 'z' {
				return false
			}
			continue
		}
		if c != p[i] {
			return false
		}
	}
	return true
}

// Tiling is the model of a histogram's buckets: sorted upper bounds followed by
// the terminal maximum bucket.
type Tiling struct {
	Dur bool
	UF  []float64
	UD  []int64
}

var tallyDefaultDurs = []int64{0, 10e6, 25e6, 50e6, 75e6, 100e6, 200e6, 300e6, 400e6, 500e6, 600e6, 800e6, 1e9, 2e9, 5e9}

// TilingOf models the buckets of a histogram created with spec under a root
// whose default buckets are def (nil: the library default).
func TilingOf(spec, def *BucketSpec) *Tiling {
	if spec == nil || spec.Nil || spec.empty() {
		// "empty/nil meaning scope defaults"
		if def == nil || def.Nil || (len(def.Bits) == 0 && len(def.Durs) == 0) {
			spec = &BucketSpec{Dur: true, Durs: tallyDefaultDurs}
		} else {
			spec = def
		}
	}
	t := &Tiling{Dur: spec.Dur}
	if spec.Dur {
		t.UD = append(t.UD, spec.Durs...)
		sort.Slice(t.UD, func(i, j int) bool { return t.UD[i] < t.UD[j] })
		t.UD = append(t.UD, math.MaxInt64)
	} else {
		for _, b := range spec.Bits {
			t.UF = append(t.UF, f64from(b))
		}
		sort.Float64s(t.UF)
		t.UF = append(t.UF, math.MaxFloat64)
	}
	return t
}

// N is the number of buckets.
func (t *Tiling) N() int {
	if t.Dur {
		return len(t.UD)
	}
	return len(t.UF)
}

// LowerF / LowerD give the lower bound of bucket i.
func (t *Tiling) LowerF(i int) float64 {
	if i == 0 {
		return -math.MaxFloat64
	}
	return t.UF[i-1]
}

func (t *Tiling) LowerD(i int) int64 {
	if i == 0 {
		return math.MinInt64
	}
	return t.UD[i-1]
}

// IndexF returns the bucket a value belongs to: the first bucket whose upper
// bound is >= x; +Inf goes last, -Inf first; NaN has no defined bucket (-1).
func (t *Tiling) IndexF(x float64) int {
	if math.IsNaN(x) {
		return -1
	}
	if math.IsInf(x, 1) {
		return len(t.UF) - 1
	}
	for i, u := range t.UF {
		if u >= x {
			return i
		}
	}
	return len(t.UF) - 1
}

// IndexD is IndexF for durations.
func (t *Tiling) IndexD(x int64) int {
	for i, u := range t.UD {
		if u >= x {
			return i
		}
	}
	return len(t.UD) - 1
}

// FirstIndexWithUpperF returns the set of bucket indices sharing the same upper
// bound as bucket i (duplicated bounds).
func (t *Tiling) sameUpper(i int) (lo, hi int) {
	lo, hi = i, i
	if t.Dur {
		for lo > 0 && t.UD[lo-1] == t.UD[i] {
			lo--
		}
		for hi+1 < len(t.UD) && t.UD[hi+1] == t.UD[i] {
			hi++
		}
	} else {
		for lo > 0 && t.UF[lo-1] == t.UF[i] {
			lo--
		}
		for hi+1 < len(t.UF) && t.UF[hi+1] == t.UF[i] {
			hi++
		}
	}
	return
}

var _ = time.Second
