package simrt

import (
	"fmt"
	"sort"
)

// ZeroKV returns zero values of a map's key and element types; rewritten range
// loops use it to declare their loop variables once, outside the loop.
func ZeroKV[M ~map[K]V, K comparable, V any](m M) (K, V) {
	var k K
	var v V
	return k, v
}

// MapKeys returns the keys of m in the order a rewritten `for k, v := range m`
// visits them: a snapshot, sorted, then permuted by recorded decisions.
func MapKeys[M ~map[K]V, K comparable, V any](m M) []K {
	keys := make([]K, 0, len(m))
	for k := range m {
		keys = append(keys, k)
	}
	s := simTask()
	if s == nil || len(keys) < 2 {
		return keys
	}
	sortKeys(keys)
	n := len(keys)
	permuted := false
	for i := 0; i < n-1; i++ {
		j := i + s.Ch.Choose(n-i, "range")
		if j != i {
			keys[i], keys[j] = keys[j], keys[i]
			permuted = true
		}
	}
	s.NoteMapRange(permuted)
	return keys
}

func sortKeys[K comparable](keys []K) {
	switch ks := any(keys).(type) {
	case []string:
		sort.Strings(ks)
	case []int:
		sort.Ints(ks)
	case []int64:
		sort.Slice(ks, func(i, j int) bool { return ks[i] < ks[j] })
	case []uint64:
		sort.Slice(ks, func(i, j int) bool { return ks[i] < ks[j] })
	case []float64:
		sort.Float64s(ks) // NaNs first; they are told apart by nothing a program can see
	default:
		sort.Slice(keys, func(i, j int) bool {
			return fmt.Sprintf("%#v", keys[i]) < fmt.Sprintf("%#v", keys[j])
		})
	}
}

// MapIter drives a rewritten `for k, v := range m`.
type MapIter[K comparable, V any] struct {
	m    map[K]V
	keys []K
	i    int
	k    K
	v    V
	nan  []V // values stored under keys that are not equal to themselves (NaN)
}

// NewMapIter snapshots and orders the keys of m.
func NewMapIter[M ~map[K]V, K comparable, V any](m M) *MapIter[K, V] {
	it := &MapIter[K, V]{m: m, keys: MapKeys(m)}
	for _, k := range it.keys {
		if k != k {
			// a NaN key cannot be looked up again: keep the values of such entries,
			// in an order that does not depend on the runtime's iteration order
			for k2, v := range m {
				if k2 != k2 {
					it.nan = append(it.nan, v)
				}
			}
			sort.Slice(it.nan, func(i, j int) bool { return fmt.Sprintf("%#v", it.nan[i]) < fmt.Sprintf("%#v", it.nan[j]) })
			break
		}
	}
	return it
}

// Next advances to the next key that is still present.
func (it *MapIter[K, V]) Next() bool {
	for it.i < len(it.keys) {
		k := it.keys[it.i]
		it.i++
		if k != k {
			if len(it.nan) == 0 {
				continue
			}
			it.k, it.v = k, it.nan[0]
			it.nan = it.nan[1:]
			return true
		}
		if v, ok := it.m[k]; ok {
			it.k, it.v = k, v
			return true
		}
	}
	return false
}

// Key returns the current key.
func (it *MapIter[K, V]) Key() K { return it.k }

// Val returns the current value.
func (it *MapIter[K, V]) Val() V { return it.v }
