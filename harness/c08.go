package harness

import (
	"fmt"
	"strings"
)

func init() {
	register(&Property{
		ID:    "C08",
		Gen:   genC08,
		Check: checkC08,
		Interest: func(env *Env) bool {
			return env.Sim.Stats.Preemptions > 0 && (env.Probes.Custom["close_during_pass"] > 0 || env.Probes.Custom["concurrent_close_callers"] > 0)
		},
	})
}

func genC08(g *Gen, tier string) *Program {
	p := &Program{Prop: "C08"}
	c := &p.Cfg
	baseCfg(g, c)
	c.Faults.HasCloser = g.Bool(60)
	c.Faults.CloseErr = c.Faults.HasCloser && g.Bool(50)
	if c.IntervalNs > 0 && g.Bool(60) {
		c.Faults.SlowPct = pick(g, 10, 30, 60)
		c.Faults.SlowMenu = []int64{c.IntervalNs / 3, c.IntervalNs, 2*c.IntervalNs + 1}
	}
	maxOps := 9
	if tier == "thorough" {
		maxOps = 16
	}
	// a quarter of the programs churn: subscopes are closed and requested again
	// all the time, so that the root's Close meets passes that are retiring and
	// replacing scopes
	wClose := 1
	if g.Bool(25) {
		wClose = 5
	}
	genWorkload(g, p, wlOpts{
		tasks: [2]int{1, 3}, ops: [2]int{3, maxOps}, scopes: 3,
		wDerive: 3, wCounter: 3, wInc: 8, wGauge: 1, wUpd: 2, wHist: 1, wRecH: 2, wTimer: 1, wRec: 1, wClose: wClose, wSleep: 2, wYield: 1,
		reacquire: 70, closer: 100, closers: 3, ownGauge: true,
	})
	if wClose > 1 {
		// and each task ends with a scope that is closed, requested again, used and
		// closed again in quick succession - twice within one slow report pass
		for ti, t := range p.Tasks {
			var derive *Op
			for i := range t {
				if (t[i].K == "sub" || t[i].K == "tag") && t[i].S == 0 {
					derive = &t[i]
				}
			}
			if derive == nil {
				continue
			}
			d0 := *derive
			cur := d0.D
			var tail []Op
			for k := 0; k < 2; k++ {
				nd := 60 + 2*k
				re := d0
				re.D = nd
				tail = append(tail, Op{K: "close", S: cur}, re, Op{K: "counter", S: nd, M: nd, Name: "churn"}, Op{K: "inc", M: nd, I: int64(k + 1)})
				cur = nd
			}
			tail = append(tail, Op{K: "close", S: cur})
			// in front of the task's own closeroot, if it has one
			at := len(t)
			for i := range t {
				if t[i].K == "closeroot" {
					at = i
					break
				}
			}
			p.Tasks[ti] = append(append(append([]Op{}, t[:at]...), tail...), t[at:]...)
		}
	}
	// some recorders keep going after they closed the root themselves
	for ti := range p.Tasks {
		if g.Bool(35) {
			p.Tasks[ti] = append(p.Tasks[ti], Op{K: "closeroot"},
				Op{K: "sub", S: 0, D: 80, Name: "late"}, Op{K: "counter", S: 80, M: 80, Name: "lc"}, Op{K: "inc", M: 80, I: 3})
		}
	}
	// after everything joined: time passes, old handles are used, Close again
	if c.IntervalNs > 0 {
		p.Epilogue = append(p.Epilogue, Op{K: "sleep", I: 3 * c.IntervalNs})
	}
	p.Epilogue = append(p.Epilogue, Op{K: "closeroot"}, Op{K: "sub", S: 0, D: 81, Name: "post"}, Op{K: "counter", S: 81, M: 81, Name: "pc"}, Op{K: "inc", M: 81, I: 1})
	if c.IntervalNs > 0 {
		p.Epilogue = append(p.Epilogue, Op{K: "sleep", I: 2 * c.IntervalNs})
	}
	return p
}

func checkC08(env *Env) []Violation {
	ops := env.OpsBeforeTeardown()
	var out []Violation
	out = append(out, opPanics(ops, nil)...)
	ci := newCloseInfo(env, ops)
	end := env.teardownSeq()
	var closes []*OpRec
	for _, r := range ops {
		if r.Op.K == "closeroot" {
			closes = append(closes, r)
		}
	}
	if len(closes) == 0 || ci.rootRet == inf {
		return out
	}
	firstInv, firstRet := ci.rootInv, ci.rootRet
	// probes
	overl := 0
	for _, r := range closes {
		if r.Inv < firstRet && r.Inv != firstInv {
			overl++
		}
	}
	if overl > 0 {
		env.Probes.inc("concurrent_close_callers")
	}
	for _, p := range env.passes() {
		if p.begin < firstInv && p.end > firstInv {
			env.Probes.inc("close_during_pass")
		}
	}

	// 1. everything recorded before Close was called has been delivered when a Close call returns
	counters := newLedgers()
	hists := newLedgers()
	type gaugeLed struct {
		name  string
		tags  map[string]string
		last  uint64 // last required update
		have  bool
		later map[uint64]bool // optional updates after it
		tasks map[int]bool
	}
	gauges := map[string]*gaugeLed{}
	for _, r := range ops {
		mv, _ := r.Obj.(*metricVar)
		if mv == nil {
			continue
		}
		ob := ci.obligation(mv, r)
		if ob == forbidden {
			continue
		}
		switch r.Op.K {
		case "inc":
			counters.get(mv).add(r.Op.I, ob == required)
		case "recv", "recd":
			if (r.Op.K == "recv") == (mv.spec == nil || !mv.spec.Dur) {
				hists.get(mv).add(1, ob == required)
			}
		case "upd":
			k := idKey(mv.FullName, mv.Tags)
			g := gauges[k]
			if g == nil {
				g = &gaugeLed{name: mv.FullName, tags: mv.Tags, later: map[uint64]bool{}, tasks: map[int]bool{}}
				gauges[k] = g
			}
			g.tasks[r.Task] = true
			if ob == required {
				g.last, g.have = r.Op.F, true
				g.later = map[uint64]bool{}
			} else {
				g.later[r.Op.F] = true
			}
		}
	}
	sumH := map[string]int64{}
	lastG := map[string]uint64{}
	haveG := map[string]bool{}
	sum := map[string]int64{}
	var lastDelivery, finalFlush, repClose *Event
	nRepClose := 0
	for _, e := range env.Log.Events {
		if e.Seq >= end {
			break
		}
		switch e.Kind {
		case EvCounter, EvGauge, EvHVal, EvHDur:
			if e.Kind == EvCounter && !env.isInternalID(e.Name, e.Tags) && e.Seq < firstRet {
				if l := counters.lookup(e.Name, e.Tags); l != nil {
					sum[l.key] += e.I
				}
			}
			if (e.Kind == EvHVal || e.Kind == EvHDur) && e.Seq < firstRet {
				if l := hists.lookup(e.Name, e.Tags); l != nil {
					sumH[l.key] += e.I
				}
			}
			if e.Kind == EvGauge && e.Seq < firstRet && !env.isInternalID(e.Name, e.Tags) {
				lastG[idKey(e.Name, e.Tags)] = e.F
				haveG[idKey(e.Name, e.Tags)] = true
			}
			lastDelivery = e
		case EvFlush:
			finalFlush = e
		case EvRepClose:
			repClose = e
			nRepClose++
		}
		// 4. after a Close call has returned no report, flush or reporter close is running or starts
		switch e.Kind {
		case EvCounter, EvGauge, EvHVal, EvHDur, EvFlush, EvRepClose:
			if e.Seq > firstRet {
				out = append(out, vf("report-after-close", "reporter call after the root's Close had returned (seq %d > %d): %s", e.Seq, firstRet, e))
			} else if e.EndSeq == 0 || e.EndSeq > firstRet {
				out = append(out, vf("report-running-at-close-return", "reporter call still in progress when the root's Close returned (seq %d): %s", firstRet, e))
			}
		}
	}
	for k, l := range counters.m {
		if !l.admits(sum[k]) {
			out = append(out, vf("close-lost-data", "counter %q %v: when Close returned %d had been delivered, recorded before Close was called: %d (+ optional %v)", l.name, l.tags, sum[k], l.req, l.opt))
		}
	}
	for k, l := range hists.m {
		if !l.admits(sumH[k]) {
			out = append(out, vf("close-lost-data", "histogram %q %v: when Close returned %d samples had been delivered, recorded before Close was called: %d (+ optional %d)", l.name, l.tags, sumH[k], l.req, len(l.opt)))
		}
	}
	for k, g := range gauges {
		if !g.have || len(g.tasks) != 1 {
			continue
		}
		if !haveG[k] || (lastG[k] != g.last && !g.later[lastG[k]]) {
			out = append(out, vf("close-lost-data", "gauge %q %v: last update before Close was called was %v, the reporter's most recent value when Close returned is %v (delivered: %v)", g.name, g.tags, f64from(g.last), f64from(lastG[k]), haveG[k]))
		}
	}
	// 2. a Flush follows the last delivery and precedes the return
	if finalFlush == nil || finalFlush.EndSeq == 0 || finalFlush.EndSeq > firstRet {
		out = append(out, vf("no-final-flush", "no completed Flush before the root's Close returned"))
	} else if lastDelivery != nil && lastDelivery.Seq > finalFlush.Seq {
		out = append(out, vf("delivery-after-final-flush", "a value was delivered after the last Flush: %s", lastDelivery))
	}
	// 3. reporter Close exactly once, after the final flush, its error returned by one call
	if env.Prog.Cfg.Faults.HasCloser {
		if nRepClose != 1 {
			out = append(out, vf("reporter-close-count", "reporter implements io.Closer and was closed %d times", nRepClose))
		} else if finalFlush != nil && repClose.Seq < finalFlush.EndSeq {
			out = append(out, vf("reporter-close-order", "reporter closed before the final flush ended"))
		}
		nerr := 0
		for _, r := range closes {
			if r.Err != "" {
				nerr++
				if r.Err != errReporterClose.Error() {
					out = append(out, vf("close-error", "Close returned an unexpected error %q", r.Err))
				}
			}
		}
		want := 0
		if env.Prog.Cfg.Faults.CloseErr {
			want = 1
		}
		if nerr != want {
			out = append(out, vf("close-error", "reporter Close error=%v but %d Close calls returned an error", env.Prog.Cfg.Faults.CloseErr, nerr))
		}
	} else {
		if nRepClose != 0 {
			out = append(out, vf("reporter-close-count", "reporter without io.Closer was closed"))
		}
		for _, r := range closes {
			if r.Err != "" {
				out = append(out, vf("close-error", "Close returned %q although the reporter cannot fail to close", r.Err))
			}
		}
	}
	// 5. the reporting goroutine has ended when Close returns
	for _, r := range closes {
		if r.Ret == 0 {
			continue
		}
		if l, ok := r.Extra.(*leftAtClose); ok {
			if w := l.stillAtWork(); len(w) > 0 {
				out = append(out, vf("goroutine-left", "%d goroutine(s) started by the root scope had not ended when Close returned: %s", len(w), strings.Join(w, "; ")))
				break
			}
		}
	}
	// 6. further Close calls return nil
	for _, r := range closes {
		if r.Inv > firstRet && r.Err != "" {
			out = append(out, vf("second-close-error", "a Close call after the first one had returned gave error %q", r.Err))
		}
	}
	return out
}

var _ = fmt.Sprint
