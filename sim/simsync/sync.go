// Package simsync has the API of package sync. Under a running simulation every
// potentially blocking operation is a scheduling point whose eligibility is
// decided by a model (simrt), so that a task never blocks on a real lock; the
// real primitive is still operated (always uncontended) so that the race
// detector sees the true happens-before edges. Outside a run the types behave
// like the originals.
package simsync

import (
	"sync"
	"unsafe"

	"verifsim/simrt"
)

// Locker is sync.Locker.
type Locker = sync.Locker

// Map is sync.Map (not instrumented; tally does not use it).
type Map = sync.Map

// Mutex is sync.Mutex under the scheduler.
type Mutex struct {
	real sync.Mutex
	m    simrt.MutexModel
}

// Lock locks m.
func (m *Mutex) Lock() {
	if simrt.Exiting() {
		return // a task being torn down leaves the real primitives alone
	}
	simrt.AcquireMutex(&m.m, unsafe.Pointer(m))
	m.real.Lock()
}

// TryLock tries to lock m.
func (m *Mutex) TryLock() bool {
	if simrt.Exiting() {
		return true
	}
	if !simrt.InTask() {
		return m.real.TryLock()
	}
	if !simrt.TryAcquireMutex(&m.m, unsafe.Pointer(m)) {
		return false
	}
	m.real.Lock()
	return true
}

// Unlock unlocks m.
func (m *Mutex) Unlock() {
	if simrt.Exiting() {
		return
	}
	// a scheduling point while the lock is still held: a thread can lose the CPU
	// at the very end of its critical section, which is the only way another
	// task ever sees this lock busy in a TryLock or queues up behind it
	simrt.Point(simrt.OpUnlock, unsafe.Pointer(m))
	if !simrt.ReleaseMutex(&m.m) {
		panic("sync: unlock of unlocked mutex")
	}
	m.real.Unlock()
}

// RWMutex is sync.RWMutex under the scheduler.
type RWMutex struct {
	real sync.RWMutex
	m    simrt.RWModel
}

// Lock locks rw for writing.
func (rw *RWMutex) Lock() {
	if simrt.Exiting() {
		return
	}
	simrt.AcquireWrite(&rw.m, unsafe.Pointer(rw))
	rw.real.Lock()
}

// TryLock tries to lock rw for writing.
func (rw *RWMutex) TryLock() bool {
	if simrt.Exiting() {
		return true
	}
	if !simrt.InTask() {
		return rw.real.TryLock()
	}
	if !simrt.TryAcquireWrite(&rw.m, unsafe.Pointer(rw)) {
		return false
	}
	rw.real.Lock()
	return true
}

// Unlock unlocks rw for writing.
func (rw *RWMutex) Unlock() {
	if simrt.Exiting() {
		return
	}
	simrt.Point(simrt.OpUnlock, unsafe.Pointer(rw))
	if !simrt.ReleaseWrite(&rw.m) {
		panic("sync: Unlock of unlocked RWMutex")
	}
	rw.real.Unlock()
}

// RLock locks rw for reading.
func (rw *RWMutex) RLock() {
	if simrt.Exiting() {
		return
	}
	simrt.AcquireRead(&rw.m, unsafe.Pointer(rw))
	rw.real.RLock()
}

// TryRLock tries to lock rw for reading.
func (rw *RWMutex) TryRLock() bool {
	if simrt.Exiting() {
		return true
	}
	if !simrt.InTask() {
		return rw.real.TryRLock()
	}
	if !simrt.TryAcquireRead(&rw.m, unsafe.Pointer(rw)) {
		return false
	}
	rw.real.RLock()
	return true
}

// RUnlock undoes a single RLock.
func (rw *RWMutex) RUnlock() {
	if simrt.Exiting() {
		return
	}
	if !simrt.ReleaseRead(&rw.m) {
		panic("sync: RUnlock of unlocked RWMutex")
	}
	rw.real.RUnlock()
}

// RLocker returns a Locker for the read side.
func (rw *RWMutex) RLocker() Locker { return (*rlocker)(rw) }

type rlocker RWMutex

func (r *rlocker) Lock()   { (*RWMutex)(r).RLock() }
func (r *rlocker) Unlock() { (*RWMutex)(r).RUnlock() }

// WaitGroup is sync.WaitGroup under the scheduler.
type WaitGroup struct {
	real sync.WaitGroup
	m    simrt.WGModel
}

// Add adds delta to the counter.
func (wg *WaitGroup) Add(delta int) {
	if simrt.Exiting() {
		return
	}
	simrt.WGAdd(&wg.m, delta)
	wg.real.Add(delta)
}

// Done decrements the counter.
func (wg *WaitGroup) Done() { wg.Add(-1) }

// Wait blocks until the counter is zero.
func (wg *WaitGroup) Wait() {
	if simrt.Exiting() {
		return
	}
	simrt.WGWait(&wg.m, unsafe.Pointer(wg))
	wg.real.Wait()
}

// Once is sync.Once under the scheduler.
type Once struct {
	real sync.Once
	m    simrt.OnceModel
}

// Do calls f once.
func (o *Once) Do(f func()) {
	if simrt.Exiting() {
		return
	}
	if !simrt.InTask() {
		o.real.Do(func() { o.m.State = 1; f(); o.m.State = 2 })
		return
	}
	if simrt.OnceEnter(&o.m, unsafe.Pointer(o)) {
		defer simrt.OnceLeave(&o.m)
		o.real.Do(f)
	}
}

// Pool is sync.Pool made deterministic: LIFO, emptied at the start of every
// run, with a recorded "dropped by the garbage collector" coin.
type Pool struct {
	New func() interface{}

	real  sync.Pool
	items []interface{}
	epoch uint64
}

// Get takes an object from the pool.
//
//go:norace
func (p *Pool) Get() interface{} {
	if !simrt.InTask() {
		if v := p.real.Get(); v != nil {
			return v
		}
		if p.New != nil {
			return p.New()
		}
		return nil
	}
	simrt.Point(simrt.OpPool, unsafe.Pointer(p))
	if e := simrt.Epoch(); p.epoch != e {
		p.epoch, p.items = e, nil
	}
	if n := len(p.items); n > 0 {
		if !simrt.PoolDrop() {
			v := p.items[n-1]
			p.items = p.items[:n-1]
			// a sync.Pool orders Put(x) before the Get that returns x
			raceAcquire(unsafe.Pointer(p))
			return v
		}
		p.items = p.items[:0]
	}
	if p.New != nil {
		return p.New()
	}
	return nil
}

// Put returns an object to the pool.
//
//go:norace
func (p *Pool) Put(x interface{}) {
	if x == nil {
		return
	}
	if !simrt.InTask() {
		p.real.Put(x)
		return
	}
	simrt.Point(simrt.OpPool, unsafe.Pointer(p))
	if e := simrt.Epoch(); p.epoch != e {
		p.epoch, p.items = e, nil
	}
	raceReleaseMerge(unsafe.Pointer(p))
	p.items = simrt.AppendNR(p.items, x)
}

// Cond is sync.Cond under the scheduler.
type Cond struct {
	L       Locker
	real    *sync.Cond
	waiters []*simrt.CondModel
}

// NewCond returns a new Cond.
func NewCond(l Locker) *Cond { return &Cond{L: l, real: sync.NewCond(l)} }

// Wait waits for a signal.
func (c *Cond) Wait() {
	if simrt.Exiting() {
		return
	}
	if !simrt.InTask() {
		c.real.Wait()
		return
	}
	w := &simrt.CondModel{}
	c.waiters = append(c.waiters, w)
	c.L.Unlock()
	simrt.CondWait(w, unsafe.Pointer(c))
	c.L.Lock()
}

// Signal wakes one waiter.
func (c *Cond) Signal() {
	if !simrt.InTask() {
		c.real.Signal()
		return
	}
	if len(c.waiters) > 0 {
		c.waiters[0].Signalled = true
		c.waiters = c.waiters[1:]
	}
}

// Broadcast wakes all waiters.
func (c *Cond) Broadcast() {
	if !simrt.InTask() {
		c.real.Broadcast()
		return
	}
	for _, w := range c.waiters {
		w.Signalled = true
	}
	c.waiters = nil
}
