// check is the command registered in MANIFEST.json:
//
//	check <ID> quick|thorough        seeded search; exit 0 / 1 (+ "VIOLATION property=<ID> replay=<path>") / 2 (infrastructure)
//	check <ID> --replay <file>       re-execute a replay file against the current /repo
//	check selftest-determinism [IDs] same seeds in many processes must give identical histories
//
// Every invocation copies /repo's working tree to a scratch directory outside
// /repo and /verif, instruments the copy with simgen, builds the harness test
// binary with go1.26.8 and removes the scratch directory when done.
package main

import (
	"bytes"
	"crypto/sha256"
	"encoding/hex"
	"encoding/json"
	"fmt"
	"os"
	"os/exec"
	"path/filepath"
	"sort"
	"strconv"
	"strings"
	"sync"
	"time"
)

var verifDir = func() string {
	if v := os.Getenv("VERIF_DIR"); v != "" {
		return v
	}
	exe, err := os.Executable()
	if err == nil {
		d := filepath.Dir(filepath.Dir(exe))
		if _, err := os.Stat(filepath.Join(d, "properties.jsonl")); err == nil {
			return d
		}
	}
	return "/verif"
}()

func envInt(name string, def int) int {
	if v := os.Getenv(name); v != "" {
		if n, err := strconv.Atoi(v); err == nil {
			return n
		}
	}
	return def
}

func infra(format string, a ...interface{}) {
	fmt.Printf("INFRASTRUCTURE-ERROR: "+format+"\n", a...)
	os.Exit(2)
}

type workerOut struct {
	Worker      int               `json:"worker"`
	Runs        int               `json:"runs"`
	Steps       int64             `json:"steps"`
	SimNs       int64             `json:"sim_ns"`
	WallMs      int64             `json:"wall_ms"`
	Preempt     int64             `json:"preemptions"`
	Truncated   int               `json:"truncated"`
	Leaked      int               `json:"leaked"`
	Interesting int               `json:"interesting"`
	Distinct    []string          `json:"distinct"`
	Faults      map[string]int64  `json:"faults"`
	Probes      map[string]int64  `json:"probes"`
	Strategies  map[string]int    `json:"strategies"`
	Stacks      map[string]int    `json:"stacks"`
	Samples     []json.RawMessage `json:"samples"`
	Violation   json.RawMessage   `json:"violation,omitempty"`
	Known       []string          `json:"known,omitempty"`
	Infra       string            `json:"infra,omitempty"`
	Hashes      []string          `json:"hashes,omitempty"`
}

type replayHead struct {
	RunIndex  int      `json:"run_index"`
	RunSeed   uint64   `json:"run_seed"`
	Class     string   `json:"violation_class"`
	Violation []string `json:"violation"`
}

func build(scratch string, race bool) {
	args := []string{filepath.Join(verifDir, "build.sh"), scratch}
	if race {
		args = append(args, "race")
	}
	cmd := exec.Command("/bin/bash", args...)
	out, err := cmd.CombinedOutput()
	if err != nil {
		fmt.Println(string(out))
		os.RemoveAll(scratch)
		infra("building the instrumented copy of /repo failed: %v", err)
	}
}

func treeIdentity() map[string]string {
	repo := os.Getenv("VERIF_REPO")
	if repo == "" {
		repo = "/repo"
	}
	head, _ := exec.Command("git", "-C", repo, "rev-parse", "HEAD").Output()
	diff, _ := exec.Command("git", "-C", repo, "diff", "HEAD").Output()
	h := sha256.Sum256(diff)
	d := "clean"
	if len(diff) > 0 {
		d = hex.EncodeToString(h[:8])
	}
	return map[string]string{"head": strings.TrimSpace(string(head)), "dirty": d}
}

// runWorkers spends the budget in generations of fresh worker processes: a
// worker's memory grows with the number of runs it has done (under the race
// detector to gigabytes within minutes), and sixteen of them must fit next to
// whatever else the machine is doing. Every generation searches from a base
// seed of its own (recorded in its replay files); the first violation or
// infrastructure error ends the search.
func runWorkers(bin, prop, tier string, seed uint64, nw int, budgetMs int, extra []string, scratch string) []*workerOut {
	chunk := 150000
	if strings.Contains(filepath.Base(bin), ".race.") {
		chunk = 60000
	}
	var all []*workerOut
	for gen := 0; budgetMs > 0; gen++ {
		b := budgetMs
		if b > chunk+chunk/3 {
			b = chunk
		}
		budgetMs -= b
		outs := runWorkersOnce(bin, prop, tier, seed+uint64(gen)*7919000003, nw, b, extra, scratch)
		all = append(all, outs...)
		for _, o := range outs {
			if o.Infra != "" || len(o.Violation) > 0 {
				return all
			}
		}
	}
	return all
}

func runWorkersOnce(bin, prop, tier string, seed uint64, nw int, budgetMs int, extra []string, scratch string) []*workerOut {
	outs := make([]*workerOut, nw)
	var wg sync.WaitGroup
	for w := 0; w < nw; w++ {
		wg.Add(1)
		go func(w int) {
			defer wg.Done()
			outPath := filepath.Join(scratch, fmt.Sprintf("out-%d.json", w))
			os.Remove(outPath)
			cmd := exec.Command(bin, "-test.run", "^TestWorker$", "-test.timeout", fmt.Sprintf("%ds", budgetMs/1000+600))
			cmd.Env = append(os.Environ(),
				"VERIF_PROP="+prop, "VERIF_TIER="+tier, "VERIF_SEED="+strconv.FormatUint(seed, 10),
				"VERIF_WORKER="+strconv.Itoa(w), "VERIF_NWORKERS="+strconv.Itoa(nw),
				"VERIF_BUDGET_MS="+strconv.Itoa(budgetMs), "VERIF_OUT="+outPath,
				"VERIF_KNOWN="+filepath.Join(verifDir, "known_findings.json"),
				"GOMAXPROCS=2", "GOMEMLIMIT=3GiB")
			cmd.Env = append(cmd.Env, extra...)
			done := make(chan struct{})
			var outb []byte
			var err error
			go func() { outb, err = cmd.CombinedOutput(); close(done) }()
			select {
			case <-done:
			case <-time.After(time.Duration(budgetMs)*time.Millisecond + 10*time.Minute):
				cmd.Process.Kill()
				<-done
				outs[w] = &workerOut{Worker: w, Infra: "worker watchdog: killed after budget + 10 min"}
				return
			}
			data, rerr := os.ReadFile(outPath)
			o := &workerOut{Worker: w}
			if rerr != nil || json.Unmarshal(data, o) != nil || (err != nil && o.Infra == "" && len(o.Violation) == 0) {
				tail := string(outb)
				if len(tail) > 3000 {
					tail = tail[len(tail)-3000:]
				}
				o.Infra = fmt.Sprintf("worker %d produced no result (err=%v):\n%s", w, err, tail)
			}
			outs[w] = o
		}(w)
	}
	wg.Wait()
	return outs
}

func main() {
	if len(os.Args) < 2 {
		fmt.Println("usage: check <ID> quick|thorough | check <ID> --replay <file> | check selftest-determinism [IDs]")
		os.Exit(2)
	}
	os.Setenv("GOFLAGS", "-mod=mod")
	os.Setenv("GOPROXY", "off")
	os.Setenv("GOSUMDB", "off")
	os.Setenv("GOTOOLCHAIN", "local")
	if os.Args[1] == "selftest-determinism" {
		selftestDeterminism(os.Args[2:])
		return
	}
	if os.Args[1] == "selftest-shims" {
		selftestShims()
		return
	}
	prop := os.Args[1]
	mode := "quick"
	if len(os.Args) > 2 {
		mode = os.Args[2]
	}
	if v := os.Getenv("VERIF_TIER"); v != "" && (mode == "quick" || mode == "thorough") && len(os.Args) <= 2 {
		mode = v
	}
	start := time.Now()
	scratch, err := os.MkdirTemp("", "verif-"+prop+"-")
	if err != nil {
		infra("%v", err)
	}
	defer os.RemoveAll(scratch)
	build(scratch, false)
	bin := filepath.Join(scratch, "harness.test")
	buildS := time.Since(start).Seconds()

	if mode == "--replay" {
		if len(os.Args) < 4 {
			infra("--replay needs a file")
		}
		rf, _ := filepath.Abs(os.Args[3])
		extra := []string{"VERIF_REPLAY=" + rf}
		if data, err := os.ReadFile(rf); err == nil {
			var head struct {
				Race bool `json:"race"`
			}
			if json.Unmarshal(data, &head) == nil && head.Race {
				build(scratch, true)
				bin = filepath.Join(scratch, "harness.race.test")
				extra = append(extra, raceEnv(scratch)...)
			}
		}
		outs := runWorkers(bin, prop, "quick", 0, 1, 60000, extra, scratch)
		o := outs[0]
		if o.Infra != "" {
			os.RemoveAll(scratch)
			infra("%s", o.Infra)
		}
		if len(o.Violation) > 0 {
			var h replayHead
			json.Unmarshal(o.Violation, &h)
			for _, l := range h.Violation {
				fmt.Println(l)
			}
			fmt.Printf("VIOLATION property=%s replay=%s\n", prop, rf)
			os.RemoveAll(scratch)
			os.Exit(1)
		}
		fmt.Printf("replay of %s: no violation on the current tree\n", rf)
		return
	}

	tier := mode
	if tier != "quick" && tier != "thorough" {
		infra("unknown mode %q", mode)
	}
	seed := uint64(20260927)
	if v := os.Getenv("VERIF_SEED"); v != "" {
		if n, err := strconv.ParseUint(v, 10, 64); err == nil {
			seed = n
		} else if n, err := strconv.ParseInt(v, 10, 64); err == nil {
			seed = uint64(n)
		}
	}
	nw := envInt("VERIF_WORKERS", 16)
	budgetS := 40
	if tier == "thorough" {
		budgetS = 600
	}
	budgetS = envInt("VERIF_BUDGET_S", budgetS)
	outs := runWorkers(bin, prop, tier, seed, nw, budgetS*1000, nil, scratch)

	// optional race slice (C09 / C14)
	var raceOuts []*workerOut
	raceS := envInt("VERIF_RACE_S", -1)
	if raceS < 0 {
		raceS = 0
		if raceProps[prop] {
			raceS = 25
			if tier == "thorough" {
				raceS = 240
			}
		}
	}
	if raceS > 0 {
		build(scratch, true)
		renv := raceEnv(scratch)
		if b := raceBorrow[prop]; b != "" {
			renv = append(renv, "VERIF_GEN_FROM="+b)
		}
		raceOuts = runWorkers(filepath.Join(scratch, "harness.race.test"), prop, tier, seed+1, nw, raceS*1000, renv, scratch)
	}
	detSample = determinismSample(bin, prop, scratch)
	finish(prop, tier, seed, nw, append(outs, raceOuts...), len(raceOuts), start, buildS, scratch)
}

var detSample string

// determinismSample re-runs the first runs of this property in a few fresh
// processes at different GOMAXPROCS and compares the history hashes; a
// divergence is a simulator bug and makes the check exit 2.
func determinismSample(bin, prop, scratch string) string {
	const nproc, nruns = 4, 12
	results := make([][]string, nproc)
	var wg sync.WaitGroup
	for p := 0; p < nproc; p++ {
		wg.Add(1)
		go func(p int) {
			defer wg.Done()
			outPath := filepath.Join(scratch, fmt.Sprintf("detsample-%d.json", p))
			cmd := exec.Command(bin, "-test.run", "^TestWorker$")
			cmd.Env = append(os.Environ(), "VERIF_PROP="+prop, "VERIF_MODE=hash", "VERIF_SEED=4242", "VERIF_MAXRUNS="+strconv.Itoa(nruns),
				"VERIF_WORKER=0", "VERIF_NWORKERS=1", "VERIF_OUT="+outPath, "GOMAXPROCS="+[]string{"1", "2", "4", "16"}[p], "VERIF_TIER=quick")
			cmd.CombinedOutput()
			var o workerOut
			data, _ := os.ReadFile(outPath)
			json.Unmarshal(data, &o)
			results[p] = o.Hashes
		}(p)
	}
	wg.Wait()
	if len(results[0]) != nruns {
		os.RemoveAll(scratch)
		infra("determinism sample: reference process produced %d of %d hashes", len(results[0]), nruns)
	}
	for p := 1; p < nproc; p++ {
		if strings.Join(results[p], "\n") != strings.Join(results[0], "\n") {
			os.RemoveAll(scratch)
			infra("determinism sample: process %d diverged from process 0 on the same seeds (simulator nondeterminism)", p)
		}
	}
	return fmt.Sprintf("%d seeds x %d fresh processes (GOMAXPROCS 1/2/4/16): identical history hashes", nruns, nproc)
}

// properties whose statement includes "without data races": part of the budget
// is spent on the same search under a -race build
var raceProps = map[string]bool{"C06": true, "C09": true, "C14": true, "C20": true}

// workloads the race slice of a property cycles through (its own first): C09's
// clause is about "all of the scope API, recording and reporting", C14's about
// every call order on the M3 reporter
var raceBorrow = map[string]string{
	"C09": "C09,C07,C09,C08,C09,C01,C09,C02,C09,C11,C09,C10",
	"C14": "C14,C13,C14,C12",
}

func raceEnv(scratch string) []string {
	prefix := filepath.Join(scratch, "race")
	return []string{"VERIF_RACE=1", "VERIF_RACE_LOG=" + prefix, "GORACE=halt_on_error=0 log_path=" + prefix}
}

func finish(prop, tier string, seed uint64, nw int, outs []*workerOut, nRace int, start time.Time, buildS float64, scratch string) {
	agg := &workerOut{Faults: map[string]int64{}, Probes: map[string]int64{}, Strategies: map[string]int{}, Stacks: map[string]int{}}
	distinct := map[string]bool{}
	known := map[string]bool{}
	var viol json.RawMessage
	violIdx := 1 << 62
	var searchMs int64
	// An infrastructure problem in one worker must not hide a violation another
	// worker found and wrote a replay for: the violation is reported (exit 1),
	// the trouble is mentioned. Without a violation any trouble is exit 2.
	anyViolation := false
	for _, o := range outs {
		anyViolation = anyViolation || len(o.Violation) > 0
	}
	for _, o := range outs {
		if o.Infra != "" {
			if anyViolation {
				fmt.Fprintf(os.Stderr, "note: a worker also reported an infrastructure problem: %.300s\n", o.Infra)
				continue
			}
			os.RemoveAll(scratch)
			infra("%s", o.Infra)
		}
		agg.Runs += o.Runs
		agg.Steps += o.Steps
		agg.SimNs += o.SimNs
		agg.Preempt += o.Preempt
		agg.Truncated += o.Truncated
		agg.Leaked += o.Leaked
		agg.Interesting += o.Interesting
		for _, d := range o.Distinct {
			distinct[d] = true
		}
		for k, v := range o.Faults {
			agg.Faults[k] += v
		}
		for k, v := range o.Probes {
			agg.Probes[k] += v
		}
		for k, v := range o.Strategies {
			agg.Strategies[k] += v
		}
		for k, v := range o.Stacks {
			agg.Stacks[k] += v
		}
		if len(agg.Samples) < 3 {
			agg.Samples = append(agg.Samples, o.Samples...)
		}
		for _, k := range o.Known {
			known[k] = true
		}
		if len(o.Violation) > 0 {
			var h replayHead
			json.Unmarshal(o.Violation, &h)
			if h.RunIndex < violIdx {
				violIdx = h.RunIndex
				viol = o.Violation
			}
		}
	}
	raceRuns := 0
	for i := len(outs) - nRace; i < len(outs); i++ {
		if i >= 0 {
			raceRuns += outs[i].Runs
		}
	}
	wall := time.Since(start).Seconds()
	nviol := 0
	replayPath := ""
	if len(viol) > 0 {
		nviol = 1
		var h replayHead
		json.Unmarshal(viol, &h)
		sum := sha256.Sum256(viol)
		rdir := filepath.Join(verifDir, "replays")
		if v := os.Getenv("VERIF_REPLAY_DIR"); v != "" {
			rdir = v
		}
		os.MkdirAll(rdir, 0o755)
		replayPath = filepath.Join(rdir, fmt.Sprintf("%s-%d-%s.json", prop, h.RunSeed, hex.EncodeToString(sum[:4])))
		var pretty bytes.Buffer
		json.Indent(&pretty, viol, "", " ")
		os.WriteFile(replayPath, pretty.Bytes(), 0o644)
		for _, l := range h.Violation {
			fmt.Println(l)
		}
	}
	// search time: the generations of worker processes run one after the other,
	// the nw workers of one generation side by side
	for g := 0; g*nw < len(outs); g++ {
		var m int64
		for i := g * nw; i < (g+1)*nw && i < len(outs); i++ {
			if outs[i] != nil && outs[i].WallMs > m {
				m = outs[i].WallMs
			}
		}
		searchMs += m
	}
	// evidence
	searchS := float64(searchMs) / 1000
	if searchS <= 0 {
		searchS = 1
	}
	if len(agg.Samples) == 0 {
		agg.Samples = append(agg.Samples, json.RawMessage(`"no run completed"`))
	}
	var knownList []string
	for k := range known {
		knownList = append(knownList, k)
	}
	sort.Strings(knownList)
	cov := map[string]interface{}{
		"evaluations":         agg.Runs,
		"distinct_nontrivial": len(distinct),
		"rule":                ruleFor(prop),
		"samples":             agg.Samples,
		"nontrivial_runs":     agg.Interesting,
		"scheduler_steps":     agg.Steps,
		"preemptions":         agg.Preempt,
		"simulated_seconds":   float64(agg.SimNs) / 1e9,
		"runs_per_hour":       int64(float64(agg.Runs) / searchS * 3600),
		"seeds_per_hour":      int64(float64(agg.Runs) / searchS * 3600),
		"search_wall_s":       searchS,
		"build_wall_s":        buildS,
		"workers":             nw,
		"race_build_workers":  min(nRace, nw),
		"race_build_runs":     raceRuns,
		"determinism_sample":  detSample,
		"faults_fired":        agg.Faults,
		"probes":              agg.Probes,
		"strategy_mix":        agg.Strategies,
		"stacks":              agg.Stacks,
		"truncated_runs":      agg.Truncated,
		"leaked_goroutines":   agg.Leaked,
		"known_findings_seen": knownList,
		"tree":                treeIdentity(),
		"components_real":     "package tally, m3, m3/thriftudp, m3/customtransports, internal/cache, internal/identity, prometheus, instrument (mechanically instrumented copy of /repo's working tree); vendored thrift codec, prometheus client_golang, murmur3 (un-instrumented)",
		"components_stubbed":  "sync, sync/atomic, go.uber.org/atomic (scheduling point + real primitive), hash/maphash, runtime.GOMAXPROCS/Gosched, net UDP sockets (in-memory), Go scheduler and clock (seeded scheduler on testing/synctest), StatsReporter/CachedStatsReporter (recording)",
		"exhaustive":          false,
	}
	ev := map[string]interface{}{
		"property_id": prop,
		"tier":        tier,
		"seed":        seed,
		"level":       "exploration",
		"coverage":    cov,
		"assumptions": []string{
			"seeded sampling of schedules, fault sequences and programs: a clean batch is evidence, not proof",
			"scheduling points exist at synchronisation operations only (atomics, locks, channels, pools, selects, socket writes); Go atomics are sequentially consistent",
			"built with go1.26.8 (testing/synctest), module language version 1.20 as in /repo",
			"reference models and oracles written from the property statement",
		},
		"wall_s":     wall,
		"violations": nviol,
	}
	edir := filepath.Join(verifDir, "evidence")
	if v := os.Getenv("VERIF_EVIDENCE_DIR"); v != "" {
		edir = v // runs against scratch clones (mutants) must not overwrite the real evidence
	}
	os.MkdirAll(edir, 0o755)
	b, _ := json.MarshalIndent(ev, "", " ")
	if err := os.WriteFile(filepath.Join(edir, prop+".json"), b, 0o644); err != nil {
		infra("writing evidence: %v", err)
	}
	fmt.Printf("%s %s: runs=%d nontrivial=%d distinct=%d steps=%d preemptions=%d sim=%.0fs wall=%.1fs (build %.1fs) truncated=%d\n",
		prop, tier, agg.Runs, agg.Interesting, len(distinct), agg.Steps, agg.Preempt, float64(agg.SimNs)/1e9, wall, buildS, agg.Truncated)
	for _, k := range knownList {
		fmt.Printf("KNOWN-FINDING: property=%s %s\n", prop, k)
	}
	if nviol > 0 {
		fmt.Printf("VIOLATION property=%s replay=%s\n", prop, replayPath)
		os.RemoveAll(scratch)
		os.Exit(1)
	}
	if agg.Runs == 0 {
		os.RemoveAll(scratch)
		infra("no run completed")
	}
}

func ruleFor(prop string) string {
	data, err := os.ReadFile(filepath.Join(verifDir, "rules.json"))
	if err == nil {
		m := map[string]string{}
		if json.Unmarshal(data, &m) == nil && m[prop] != "" {
			return m[prop]
		}
	}
	return "seeded programs and schedules; non-trivial = at least one preemption and the property's interesting condition reached; distinct = distinct (program hash, preemption signature)"
}

// selftestShims runs tally's own test suite against the mechanically rewritten
// copy of /repo with the shims in pass-through mode (no simulation active): the
// rewrite and the shim packages must not change what the code does. Left out:
// m3/thriftudp (its tests name net.UDPConn, which the rewritten package no
// longer uses) and one allocation-count test (the shims allocate).
func selftestShims() {
	scratch, err := os.MkdirTemp("", "verif-shims-")
	if err != nil {
		infra("%v", err)
	}
	defer os.RemoveAll(scratch)
	build(scratch, false)
	cmd := exec.Command("go1.26.8", "test", "-vet=off", "-count=1", "-timeout", "600s", "-v",
		"-skip", "^TestVerifyCachedTaggedScopesAlloc$",
		".", "./instrument", "./m3", "./m3/customtransports", "./multi", "./prometheus", "./statsd")
	cmd.Dir = filepath.Join(scratch, "tally")
	out, err := cmd.CombinedOutput()
	pass, fail := 0, 0
	for _, l := range strings.Split(string(out), "\n") {
		t := strings.TrimSpace(l)
		if strings.HasPrefix(t, "--- PASS") {
			pass++
		}
		if strings.HasPrefix(t, "--- FAIL") {
			fail++
			fmt.Println(t)
		}
	}
	fmt.Printf("selftest-shims: %d of tally's own tests passed, %d failed, against the rewritten copy with pass-through shims\n", pass, fail)
	if err != nil || fail > 0 {
		tail := string(out)
		if len(tail) > 3000 {
			tail = tail[len(tail)-3000:]
		}
		fmt.Println(tail)
		os.RemoveAll(scratch)
		os.Exit(2)
	}
}

func selftestDeterminism(ids []string) {
	if len(ids) == 0 {
		ids = []string{"C01"}
	}
	scratch, err := os.MkdirTemp("", "verif-det-")
	if err != nil {
		infra("%v", err)
	}
	defer os.RemoveAll(scratch)
	build(scratch, false)
	bin := filepath.Join(scratch, "harness.test")
	nproc := envInt("VERIF_DET_PROCS", 30)
	nruns := envInt("VERIF_DET_RUNS", 40)
	bad := 0
	for _, id := range ids {
		results := make([][]string, nproc)
		var wg sync.WaitGroup
		sem := make(chan struct{}, 16)
		for p := 0; p < nproc; p++ {
			wg.Add(1)
			go func(p int) {
				defer wg.Done()
				sem <- struct{}{}
				defer func() { <-sem }()
				outPath := filepath.Join(scratch, fmt.Sprintf("det-%s-%d.json", id, p))
				cmd := exec.Command(bin, "-test.run", "^TestWorker$")
				gmp := []string{"1", "4", "16"}[p%3]
				cmd.Env = append(os.Environ(), "VERIF_PROP="+id, "VERIF_MODE=hash", "VERIF_SEED=777", "VERIF_MAXRUNS="+strconv.Itoa(nruns),
					"VERIF_WORKER=0", "VERIF_NWORKERS=1", "VERIF_OUT="+outPath, "GOMAXPROCS="+gmp, "VERIF_TIER=quick")
				cmd.CombinedOutput()
				var o workerOut
				data, _ := os.ReadFile(outPath)
				json.Unmarshal(data, &o)
				if o.Infra != "" {
					fmt.Printf("%s proc %d: %s\n", id, p, o.Infra)
				}
				results[p] = o.Hashes
			}(p)
		}
		wg.Wait()
		ref := results[0]
		if len(ref) != nruns {
			fmt.Printf("%s: reference process produced %d of %d hashes\n", id, len(ref), nruns)
			bad++
		}
		for p := 1; p < nproc; p++ {
			if strings.Join(results[p], "\n") != strings.Join(ref, "\n") {
				bad++
				for i := range ref {
					if i >= len(results[p]) || results[p][i] != ref[i] {
						got := "<missing>"
						if i < len(results[p]) {
							got = results[p][i]
						}
						fmt.Printf("%s: process %d diverges at run %d: %s vs %s\n", id, p, i, got, ref[i])
						break
					}
				}
			}
		}
		fmt.Printf("%s: %d processes x %d runs at GOMAXPROCS 1/4/16 compared\n", id, nproc, nruns)
	}
	if bad > 0 {
		fmt.Printf("DETERMINISM-FAILURE: %d divergent processes\n", bad)
		os.Exit(2)
	}
	fmt.Println("determinism self-test passed")
}
