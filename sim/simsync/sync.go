// Package simsync has the API of package sync. Under a running simulation every
// potentially blocking operation is a scheduling point whose eligibility is
// decided by a model (simrt), so that a task never blocks on a real lock; the
// real primitive is still operated (always uncontended) so that the race
// detector sees the true happens-before edges. Outside a run the types behave
// like the originals.
package simsync

import (
	"sync"
	"unsafe"

	"verifsim/simrt"
)

// Locker is sync.Locker.
type Locker = sync.Locker

// Map has the API of sync.Map. Outside a run it is one; under the scheduler every
// operation is a scheduling point and Range visits the entries in insertion
// order (sync.Map's own Range order is the runtime's map order, which does not
// replay).
type Map struct {
	real sync.Map
	mu   sync.Mutex // never held across a scheduling point
	keys []interface{}
	vals map[interface{}]interface{}
}

func (m *Map) sim() bool {
	if !simrt.InTask() {
		return false
	}
	simrt.Point(simrt.OpAtomic, unsafe.Pointer(m))
	return true
}

func (m *Map) put(k, v interface{}) {
	if m.vals == nil {
		m.vals = map[interface{}]interface{}{}
	}
	if _, ok := m.vals[k]; !ok {
		m.keys = append(m.keys, k)
	}
	m.vals[k] = v
}

func (m *Map) del(k interface{}) {
	if _, ok := m.vals[k]; !ok {
		return
	}
	delete(m.vals, k)
	for i, x := range m.keys {
		if x == k {
			m.keys = append(m.keys[:i:i], m.keys[i+1:]...)
			break
		}
	}
}

// Load returns the value stored for a key.
func (m *Map) Load(key interface{}) (interface{}, bool) {
	if !m.sim() {
		return m.real.Load(key)
	}
	m.mu.Lock()
	defer m.mu.Unlock()
	v, ok := m.vals[key]
	return v, ok
}

// Store sets the value for a key.
func (m *Map) Store(key, value interface{}) {
	if !m.sim() {
		m.real.Store(key, value)
		return
	}
	m.mu.Lock()
	defer m.mu.Unlock()
	m.put(key, value)
}

// LoadOrStore returns the existing value for the key if present, else stores and returns the given one.
func (m *Map) LoadOrStore(key, value interface{}) (interface{}, bool) {
	if !m.sim() {
		return m.real.LoadOrStore(key, value)
	}
	m.mu.Lock()
	defer m.mu.Unlock()
	if v, ok := m.vals[key]; ok {
		return v, true
	}
	m.put(key, value)
	return value, false
}

// LoadAndDelete deletes the value for a key, returning the previous value if any.
func (m *Map) LoadAndDelete(key interface{}) (interface{}, bool) {
	if !m.sim() {
		return m.real.LoadAndDelete(key)
	}
	m.mu.Lock()
	defer m.mu.Unlock()
	v, ok := m.vals[key]
	m.del(key)
	return v, ok
}

// Delete deletes the value for a key.
func (m *Map) Delete(key interface{}) { m.LoadAndDelete(key) }

// Swap swaps the value for a key and returns the previous value if any.
func (m *Map) Swap(key, value interface{}) (interface{}, bool) {
	if !m.sim() {
		return m.real.Swap(key, value)
	}
	m.mu.Lock()
	defer m.mu.Unlock()
	v, ok := m.vals[key]
	m.put(key, value)
	return v, ok
}

// CompareAndSwap swaps the old and new values for key if the value stored is equal to old.
func (m *Map) CompareAndSwap(key, old, new interface{}) bool {
	if !m.sim() {
		return m.real.CompareAndSwap(key, old, new)
	}
	m.mu.Lock()
	defer m.mu.Unlock()
	if v, ok := m.vals[key]; ok && v == old {
		m.vals[key] = new
		return true
	}
	return false
}

// CompareAndDelete deletes the entry for key if its value is equal to old.
func (m *Map) CompareAndDelete(key, old interface{}) bool {
	if !m.sim() {
		return m.real.CompareAndDelete(key, old)
	}
	m.mu.Lock()
	defer m.mu.Unlock()
	if v, ok := m.vals[key]; ok && v == old {
		m.del(key)
		return true
	}
	return false
}

// Range calls f for each entry; entries stored or deleted meanwhile may or may not be seen.
func (m *Map) Range(f func(key, value interface{}) bool) {
	if !m.sim() {
		m.real.Range(f)
		return
	}
	m.mu.Lock()
	keys := append([]interface{}(nil), m.keys...)
	m.mu.Unlock()
	for _, k := range keys {
		m.mu.Lock()
		v, ok := m.vals[k]
		m.mu.Unlock()
		if ok && !f(k, v) {
			return
		}
	}
}

// Clear deletes all the entries.
func (m *Map) Clear() {
	if !m.sim() {
		m.real.Clear()
		return
	}
	m.mu.Lock()
	defer m.mu.Unlock()
	m.keys, m.vals = nil, nil
}

// Mutex is sync.Mutex under the scheduler.
type Mutex struct {
	real sync.Mutex
	m    simrt.MutexModel
}

// Lock locks m.
func (m *Mutex) Lock() {
	if simrt.Exiting() {
		return // a task being torn down leaves the real primitives alone
	}
	simrt.AcquireMutex(&m.m, unsafe.Pointer(m))
	m.real.Lock()
}

// TryLock tries to lock m.
func (m *Mutex) TryLock() bool {
	if simrt.Exiting() {
		return true
	}
	if !simrt.InTask() {
		return m.real.TryLock()
	}
	if !simrt.TryAcquireMutex(&m.m, unsafe.Pointer(m)) {
		return false
	}
	m.real.Lock()
	return true
}

// Unlock unlocks m.
func (m *Mutex) Unlock() {
	if simrt.Exiting() {
		return
	}
	// a scheduling point while the lock is still held: a thread can lose the CPU
	// at the very end of its critical section, which is the only way another
	// task ever sees this lock busy in a TryLock or queues up behind it
	simrt.Point(simrt.OpUnlock, unsafe.Pointer(m))
	if !simrt.ReleaseMutex(&m.m) {
		panic("sync: unlock of unlocked mutex")
	}
	m.real.Unlock()
}

// RWMutex is sync.RWMutex under the scheduler.
type RWMutex struct {
	real sync.RWMutex
	m    simrt.RWModel
}

// Lock locks rw for writing.
func (rw *RWMutex) Lock() {
	if simrt.Exiting() {
		return
	}
	simrt.AcquireWrite(&rw.m, unsafe.Pointer(rw))
	rw.real.Lock()
}

// TryLock tries to lock rw for writing.
func (rw *RWMutex) TryLock() bool {
	if simrt.Exiting() {
		return true
	}
	if !simrt.InTask() {
		return rw.real.TryLock()
	}
	if !simrt.TryAcquireWrite(&rw.m, unsafe.Pointer(rw)) {
		return false
	}
	rw.real.Lock()
	return true
}

// Unlock unlocks rw for writing.
func (rw *RWMutex) Unlock() {
	if simrt.Exiting() {
		return
	}
	simrt.Point(simrt.OpUnlock, unsafe.Pointer(rw))
	if !simrt.ReleaseWrite(&rw.m) {
		panic("sync: Unlock of unlocked RWMutex")
	}
	rw.real.Unlock()
}

// RLock locks rw for reading.
func (rw *RWMutex) RLock() {
	if simrt.Exiting() {
		return
	}
	simrt.AcquireRead(&rw.m, unsafe.Pointer(rw))
	rw.real.RLock()
}

// TryRLock tries to lock rw for reading.
func (rw *RWMutex) TryRLock() bool {
	if simrt.Exiting() {
		return true
	}
	if !simrt.InTask() {
		return rw.real.TryRLock()
	}
	if !simrt.TryAcquireRead(&rw.m, unsafe.Pointer(rw)) {
		return false
	}
	rw.real.RLock()
	return true
}

// RUnlock undoes a single RLock.
func (rw *RWMutex) RUnlock() {
	if simrt.Exiting() {
		return
	}
	if !simrt.ReleaseRead(&rw.m) {
		panic("sync: RUnlock of unlocked RWMutex")
	}
	rw.real.RUnlock()
}

// RLocker returns a Locker for the read side.
func (rw *RWMutex) RLocker() Locker { return (*rlocker)(rw) }

type rlocker RWMutex

func (r *rlocker) Lock()   { (*RWMutex)(r).RLock() }
func (r *rlocker) Unlock() { (*RWMutex)(r).RUnlock() }

// WaitGroup is sync.WaitGroup under the scheduler.
type WaitGroup struct {
	real sync.WaitGroup
	m    simrt.WGModel
}

// Add adds delta to the counter.
func (wg *WaitGroup) Add(delta int) {
	if simrt.Exiting() {
		return
	}
	simrt.WGAdd(&wg.m, delta)
	wg.real.Add(delta)
}

// Done decrements the counter.
func (wg *WaitGroup) Done() { wg.Add(-1) }

// Wait blocks until the counter is zero.
func (wg *WaitGroup) Wait() {
	if simrt.Exiting() {
		return
	}
	simrt.WGWait(&wg.m, unsafe.Pointer(wg))
	wg.real.Wait()
}

// Once is sync.Once under the scheduler.
type Once struct {
	real sync.Once
	m    simrt.OnceModel
}

// Do calls f once.
func (o *Once) Do(f func()) {
	if simrt.Exiting() {
		return
	}
	if !simrt.InTask() {
		o.real.Do(func() { o.m.State = 1; f(); o.m.State = 2 })
		return
	}
	if simrt.OnceEnter(&o.m, unsafe.Pointer(o)) {
		defer simrt.OnceLeave(&o.m)
		o.real.Do(f)
		return
	}
	// f has completed in another task. Go through the real Once as well (it does
	// not call anything now): its done flag carries the happens-before edge from
	// the end of f to this return, which the race detector must see.
	o.real.Do(func() {})
}

// Pool is sync.Pool made deterministic: LIFO, emptied at the start of every
// run, with a recorded "dropped by the garbage collector" coin.
type Pool struct {
	New func() interface{}

	real  sync.Pool
	items []interface{}
	epoch uint64
}

// Get takes an object from the pool.
//
//go:norace
func (p *Pool) Get() interface{} {
	if !simrt.InTask() {
		if v := p.real.Get(); v != nil {
			return v
		}
		if p.New != nil {
			return p.New()
		}
		return nil
	}
	simrt.Point(simrt.OpPool, unsafe.Pointer(p))
	if e := simrt.Epoch(); p.epoch != e {
		p.epoch, p.items = e, nil
	}
	if n := len(p.items); n > 0 {
		if !simrt.PoolDrop() {
			v := p.items[n-1]
			p.items = p.items[:n-1]
			// a sync.Pool orders Put(x) before the Get that returns x
			raceAcquire(unsafe.Pointer(p))
			return v
		}
		p.items = p.items[:0]
	}
	if p.New != nil {
		return p.New()
	}
	return nil
}

// Put returns an object to the pool.
//
//go:norace
func (p *Pool) Put(x interface{}) {
	if x == nil {
		return
	}
	if !simrt.InTask() {
		p.real.Put(x)
		return
	}
	simrt.Point(simrt.OpPool, unsafe.Pointer(p))
	if e := simrt.Epoch(); p.epoch != e {
		p.epoch, p.items = e, nil
	}
	raceReleaseMerge(unsafe.Pointer(p))
	p.items = simrt.AppendNR(p.items, x)
}

// Cond is sync.Cond under the scheduler.
type Cond struct {
	L       Locker
	real    *sync.Cond
	waiters []*simrt.CondModel
}

// NewCond returns a new Cond.
func NewCond(l Locker) *Cond { return &Cond{L: l, real: sync.NewCond(l)} }

// Wait waits for a signal.
func (c *Cond) Wait() {
	if simrt.Exiting() {
		return
	}
	if !simrt.InTask() {
		c.real.Wait()
		return
	}
	w := &simrt.CondModel{}
	c.addWaiter(w)
	c.L.Unlock()
	simrt.CondWait(w, unsafe.Pointer(c))
	c.L.Lock()
}

// Signal wakes one waiter.
func (c *Cond) Signal() {
	if !simrt.InTask() {
		c.real.Signal()
		return
	}
	c.wake(false)
}

// Broadcast wakes all waiters.
func (c *Cond) Broadcast() {
	if !simrt.InTask() {
		c.real.Broadcast()
		return
	}
	c.wake(true)
}

// The list of waiters is the shim's own state; Signal and Broadcast may be
// called without holding L, so the race detector must not look at it.
//
//go:norace
func (c *Cond) addWaiter(w *simrt.CondModel) { c.waiters = simrt.AppendNR(c.waiters, w) }

//go:norace
func (c *Cond) wake(all bool) {
	for len(c.waiters) > 0 {
		c.waiters[0].Signalled = true
		c.waiters = c.waiters[1:]
		if !all {
			return
		}
	}
}
