module verifharness

go 1.26.8

require (
	github.com/uber-go/tally/v4 v4.0.0
	verifsim v0.0.0
)

replace github.com/uber-go/tally/v4 => ../tally

replace verifsim => ../verifsim
