package harness

import (
	"errors"
	"fmt"
	"io"
	"sort"
	"strings"
	"time"

	tally "github.com/uber-go/tally/v4"
	"github.com/uber-go/tally/v4/m3"
	m3thrift "github.com/uber-go/tally/v4/m3/thrift/v2"
	"github.com/uber-go/tally/v4/m3/thriftudp"
	"github.com/uber-go/tally/v4/thirdparty/github.com/apache/thrift/lib/go/thrift"
	"verifsim/simnet"
	"verifsim/simrt"
)

type m3State struct {
	rep        m3.Reporter
	cfg        *M3Cfg
	built      time.Time // wall clock (fake) at construction
	builtNs    int64
	transports []thrift.TTransport // transport stack
	multi      *thriftudp.TMultiUDPTransport
	// plain flags for the "keep reporting until Close has returned" producers;
	// tasks run one at a time, and the flags are not part of any oracle
	closeInvoked  bool
	closeReturned bool
}

// flag / is: harness bookkeeping shared by tasks that run one at a time; kept
// out of the race detector's sight like the rest of the harness state.
//
//go:norace
func (st *m3State) flag(p *bool, v bool) { *p = v }

//go:norace
func (st *m3State) is(p *bool) bool { return *p }

var errSend = errors.New("simnet: injected send error")

func (env *Env) installNetFaults() {
	fp := env.Prog.Cfg.Faults
	nw := env.Net
	nw.Hook = func(d *simnet.Datagram) { d.Seq = env.Log.Next() }
	nw.SendFault = func(c *simnet.UDPConn, nth, size int) error {
		if fp.CloseDest > 0 && nth >= fp.CloseDest && c.ID == 0 {
			env.Probes.inc("F5_dest_closed")
			c.ForceClose()
			return errors.New("use of closed network connection")
		}
		if fp.FailDest > 0 && c.ID != fp.FailDest-1 {
			return nil
		}
		if fp.FailFrom > 0 && nth >= fp.FailFrom {
			env.Probes.inc("F5_send_error")
			return errSend
		}
		for _, k := range fp.SendFail {
			if k == nth {
				env.Probes.inc("F5_send_error")
				return errSend
			}
		}
		return nil
	}
}

func (env *Env) setupM3() error {
	cfg := env.Prog.Cfg.M3
	if cfg == nil {
		return fmt.Errorf("m3 stack without m3 config")
	}
	env.installNetFaults()
	var hosts []string
	for i := 0; i < cfg.Dests; i++ {
		hosts = append(hosts, fmt.Sprintf("127.0.0.1:%d", 9052+i))
	}
	st := &m3State{cfg: cfg, built: time.Now()}
	st.builtNs = st.built.UnixNano()
	r, err := m3.NewReporter(m3.Options{
		HostPorts:                   hosts,
		Service:                     cfg.Service,
		Env:                         cfg.Env,
		CommonTags:                  copyTags(cfg.CommonTags),
		Protocol:                    m3.Protocol(cfg.Protocol),
		MaxQueueSize:                cfg.MaxQueue,
		MaxPacketSizeBytes:          cfg.MaxPacket,
		HistogramBucketTagPrecision: cfg.BucketPrec,
		HistogramBucketName:         cfg.BucketName,
		HistogramBucketIDName:       cfg.BucketIDTag,
	})
	if err != nil {
		return fmt.Errorf("m3.NewReporter: %v", err)
	}
	st.rep = r
	env.ext = st
	if env.Prog.Cfg.Stack == "m3" {
		// the scope talks to the real reporter through a recording tap
		tap := &RecCachedCloser{RecCached{seam: seam{env}, inner: r}}
		env.Cached = &tap.RecCached
		opts := tally.ScopeOptions{
			Tags:                   copyTags(env.Prog.Cfg.RootTags),
			Prefix:                 env.Prog.Cfg.Prefix,
			CachedReporter:         tap,
			OmitCardinalityMetrics: env.Prog.Cfg.OmitCard,
			SanitizeOptions:        env.Prog.Cfg.Sanitize.Tally(),
		}
		env.Root, env.RootCloser = tally.NewRootScope(opts, time.Duration(env.Prog.Cfg.IntervalNs))
		env.main.scopes[0] = &scopeVar{sc: env.Root, ptr: objPtr(env.Root), model: env.Model.Root()}
	}
	return nil
}

func (env *Env) m3() *m3State {
	st, _ := env.ext.(*m3State)
	return st
}

type m3Handle struct {
	kind   string // m3c m3g m3t m3h m3b
	name   string
	tags   map[string]string
	obj    interface{}
	spec   *BucketSpec
	parent *m3Handle
	upper  float64
	upperD int64
	def    *OpRec
}

func (te *taskEnv) execM3(op *Op, rec *OpRec) bool {
	env := te.env
	st := env.m3()
	if !strings.HasPrefix(op.K, "m3") {
		return false
	}
	if st == nil {
		return true
	}
	h := func(i int) *m3Handle {
		mv := te.metrics[i]
		if mv == nil {
			return nil
		}
		x, _ := mv.obj.(*m3Handle)
		return x
	}
	put := func(i int, x *m3Handle) {
		x.def = rec
		te.metrics[i] = &metricVar{kind: x.kind, obj: x, name: x.name, def: rec, scope: env.main.scopes[0], FullName: x.name, Tags: x.tags}
		rec.Obj = te.metrics[i]
	}
	switch op.K {
	case "m3ac":
		put(op.M, &m3Handle{kind: "m3c", name: op.Name, tags: op.Tags, obj: st.rep.AllocateCounter(op.Name, copyTags(op.Tags))})
	case "m3ag":
		put(op.M, &m3Handle{kind: "m3g", name: op.Name, tags: op.Tags, obj: st.rep.AllocateGauge(op.Name, copyTags(op.Tags))})
	case "m3at":
		put(op.M, &m3Handle{kind: "m3t", name: op.Name, tags: op.Tags, obj: st.rep.AllocateTimer(op.Name, copyTags(op.Tags))})
	case "m3ah":
		put(op.M, &m3Handle{kind: "m3h", name: op.Name, tags: op.Tags, spec: op.B, obj: st.rep.AllocateHistogram(op.Name, copyTags(op.Tags), op.B.Buckets())})
	case "m3bucket":
		if p := h(op.S); p != nil && p.kind == "m3h" {
			ch := p.obj.(tally.CachedHistogram)
			b := &m3Handle{kind: "m3b", name: p.name, tags: p.tags, parent: p}
			if p.spec.Dur {
				b.upperD = op.I
				b.obj = ch.DurationBucket(0, time.Duration(op.I))
			} else {
				b.upper = f64from(op.F)
				b.obj = ch.ValueBucket(0, f64from(op.F))
			}
			put(op.M, b)
		}
	case "m3count":
		if x := h(op.M); x != nil && x.kind == "m3c" {
			rec.Obj = te.metrics[op.M]
			x.obj.(tally.CachedCount).ReportCount(op.I)
		}
	case "m3gauge":
		if x := h(op.M); x != nil && x.kind == "m3g" {
			rec.Obj = te.metrics[op.M]
			x.obj.(tally.CachedGauge).ReportGauge(f64from(op.F))
		}
	case "m3timer":
		if x := h(op.M); x != nil && x.kind == "m3t" {
			rec.Obj = te.metrics[op.M]
			x.obj.(tally.CachedTimer).ReportTimer(time.Duration(op.I))
		}
	case "m3samples":
		if x := h(op.M); x != nil && x.kind == "m3b" {
			rec.Obj = te.metrics[op.M]
			x.obj.(tally.CachedHistogramBucket).ReportSamples(op.I)
		}
	case "m3flush":
		st.rep.Flush()
	case "m3close":
		st.flag(&st.closeInvoked, true)
		err := st.rep.Close()
		st.flag(&st.closeReturned, true)
		if err != nil {
			rec.Err = err.Error()
		}
		rec.Extra = env.watchLeft(env.Sim.LiveLibTasks())
	case "m3spam":
		// a producer that does not stop: once some task has called Close it keeps
		// reporting until a Close call has returned. "Close returns" must not
		// depend on the producers pausing; under the fair continuation of a run a
		// Close that is starved by them shows up as a livelock.
		x := h(op.M)
		if x == nil || x.kind != "m3c" {
			return true
		}
		for i := 0; i < 300 && !st.is(&st.closeInvoked); i++ {
			simrt.Yield()
		}
		if !st.is(&st.closeInvoked) {
			return true // nobody closes in this program
		}
		for !st.is(&st.closeReturned) {
			x.obj.(tally.CachedCount).ReportCount(1)
			simrt.Yield() // a scheduling point even if ReportCount has none of its own
		}
	default:
		return false
	}
	return true
}

// starved is the simulator's question, during the fair continuation of a run,
// whether some call is being kept from returning by work that keeps arriving.
// For the M3 reporter: a Close that has been called and has not returned has to
// wait for what was admitted before it shut the gate - at most the queue, the
// batch being assembled and one report per producer, plus what the producers
// got in before Close had its first few turns under round-robin scheduling. A
// reporter that has sent more datagrams than that many metrics since the fair
// continuation began, with Close still waiting, is letting new reports in
// after Close began: "Close returns" then depends on the producers pausing.
//
// (Called from the scheduler's goroutine: the harness's own fields it reads are
// none of the race detector's business.)
//
//go:norace
func (env *Env) starved() string {
	st, _ := env.ext.(*m3State)
	if st == nil || !st.is(&st.closeInvoked) || st.is(&st.closeReturned) {
		return ""
	}
	if !env.starveArmed {
		env.starveArmed, env.starveBase = true, len(env.Net.Log)
		return ""
	}
	c := env.Prog.Cfg.M3
	q := c.MaxQueue
	if q <= 0 {
		q = 4096
	}
	mp := int(c.MaxPacket)
	if mp <= 0 {
		mp = 32768
	}
	dests := c.Dests
	if dests < 1 {
		dests = 1
	}
	bound := dests * (q + 51*len(env.Prog.Tasks) + mp/25 + 8)
	if sent := len(env.Net.Log) - env.starveBase; sent > bound {
		return fmt.Sprintf("Close is starved: it was called and has not returned, and since fair scheduling began the reporter has sent %d datagrams, more than everything that can have been admitted before Close shut the gate (%d);", sent, bound)
	}
	return ""
}

// decoded datagram
type m3Batch struct {
	dg      *simnet.Datagram
	err     string // decode problem
	common  map[string]string
	metrics []m3Metric
}

type m3Metric struct {
	name string
	kind string // counter gauge timer
	i    int64
	f    uint64
	ts   int64
	tags map[string]string
	dup  bool // duplicate tag names in the wire metric
	raw  []m3thrift.MetricTag
}

func decodeDatagram(protocol int, d *simnet.Datagram) *m3Batch {
	b := &m3Batch{dg: d}
	trans := thrift.NewTMemoryBuffer()
	trans.Write(d.Data)
	var proto thrift.TProtocol
	if protocol == int(m3.Compact) {
		proto = thrift.NewTCompactProtocol(trans)
	} else {
		proto = thrift.NewTBinaryProtocolTransport(trans)
	}
	name, typ, _, err := proto.ReadMessageBegin()
	if err != nil {
		b.err = "message begin: " + err.Error()
		return b
	}
	if name != "emitMetricBatchV2" || typ != thrift.ONEWAY {
		b.err = fmt.Sprintf("message %q type %d, expected one-way emitMetricBatchV2", name, typ)
		return b
	}
	var args m3thrift.M3EmitMetricBatchV2Args
	if err := args.Read(proto); err != nil {
		b.err = "arguments: " + err.Error()
		return b
	}
	if err := proto.ReadMessageEnd(); err != nil {
		b.err = "message end: " + err.Error()
		return b
	}
	if trans.Len() != 0 {
		b.err = fmt.Sprintf("%d trailing bytes after the message", trans.Len())
		return b
	}
	b.common = map[string]string{}
	for _, t := range args.Batch.CommonTags {
		b.common[t.Name] = t.Value
	}
	for _, m := range args.Batch.Metrics {
		mm := m3Metric{name: m.Name, ts: m.Timestamp, tags: map[string]string{}, raw: m.Tags}
		for _, t := range m.Tags {
			if _, ok := mm.tags[t.Name]; ok {
				mm.dup = true
			}
			mm.tags[t.Name] = t.Value
		}
		switch m.Value.MetricType {
		case m3thrift.MetricType_COUNTER:
			mm.kind, mm.i = "counter", m.Value.Count
		case m3thrift.MetricType_GAUGE:
			mm.kind, mm.f = "gauge", f64bits(m.Value.Gauge)
		case m3thrift.MetricType_TIMER:
			mm.kind, mm.i = "timer", m.Value.Timer
		default:
			mm.kind = fmt.Sprintf("type%d", m.Value.MetricType)
		}
		b.metrics = append(b.metrics, mm)
	}
	return b
}

func (env *Env) teardownM3() {
	if st := env.m3(); st != nil && st.rep != nil {
		if env.Prog.Cfg.Stack != "m3" { // the scope closes its reporter itself
			st.rep.Close()
		}
	}
}

var _ = io.EOF
var _ = sort.Strings
