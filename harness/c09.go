package harness

import "fmt"

func init() {
	register(&Property{
		ID:    "C09",
		Gen:   genC09,
		Check: checkC09,
		Interest: func(env *Env) bool {
			return env.Sim.Stats.Preemptions > 0 && env.Probes.Custom["overlapping_first_use"] > 0
		},
	})
}

// genC09Spam: "all of the scope API, recording and reporting may be used
// concurrently without ... deadlock". Several goroutines update one gauge
// without ever pausing while another closes the root: the final report pass,
// and with it Close, must get through.
func genC09Spam(g *Gen, tier string) *Program {
	p := &Program{Prop: "C09"}
	c := &p.Cfg
	baseCfg(g, c)
	c.Faults.SlowPct = 0
	p.Prelude = append(p.Prelude, Op{K: "gauge", S: 0, M: 70, Name: "spam"}, Op{K: "upd", M: 70, F: f64bits(1)})
	for i := pick(g, 2, 3, 4, 4, 10); i > 0; i-- {
		var ops []Op
		for k := g.Intn(3); k > 0; k-- {
			ops = append(ops, Op{K: "yield"})
		}
		p.Tasks = append(p.Tasks, append(ops, Op{K: "updspam", M: 70}))
	}
	p.Tasks = append(p.Tasks, []Op{{K: "yield"}, {K: "closeroot"}})
	c.MaxSteps = 6000 // fair scheduling from here on
	c.Flags = map[string]int{"spam": 1}
	return p
}

func genC09(g *Gen, tier string) *Program {
	if g.Bool(4) {
		return genC09Spam(g, tier)
	}
	p := &Program{Prop: "C09"}
	c := &p.Cfg
	baseCfg(g, c)
	c.CPUs = pick(g, 1, 2, 2, 4, 8, 16)
	if g.Bool(3) {
		c.CPUs = 64
	}
	// pre-registered metrics that other tasks record on while first uses race
	if g.Bool(60) {
		p.Prelude = append(p.Prelude, Op{K: "counter", S: 0, M: 50, Name: "pre"}, Op{K: "inc", M: 50, I: 1})
	}
	n := g.Range(2, 4)
	kinds := []string{"counter", "gauge", "timer", "hist"}
	// one shared script of first uses; every task runs (a prefix/permutation of) it
	type step struct {
		scope int // 0 root, 1 sub a, 2 tagged k=v, 3 sub b, 4 tagged k=w
		kind  string
		name  string
	}
	// in some programs a sanitizer is configured and the names are ones it
	// rewrites: the string a metric is requested under is then not the string
	// it is kept under
	names := []string{"x", "y"}
	tv, tw := "v", "w"
	if g.Bool(30) {
		c.Sanitize = sanMenu[0]
		names = []string{"x-1", "y.2"}
		if g.Bool(60) {
			tv, tw = "v-1", "w.2" // tag values too: the scope is then known under two registry keys
		}
	}
	var script []step
	for i := g.Range(2, 5); i > 0; i-- {
		// children come in pairs whose registry keys have the same length ("a"/"b",
		// k=v/k=w): a key buffer that is recycled too early then holds a complete,
		// valid key of the sibling
		script = append(script, step{g.Intn(5), kinds[g.Intn(4)], names[g.Intn(2)]})
	}
	// in some programs the children have been used and closed before: what the
	// tasks then race for is the first use of the replacement, while report
	// passes are still retiring the closed scope
	if g.Bool(25) {
		seen := map[int]bool{}
		for _, st := range script {
			if st.scope == 0 || seen[st.scope] {
				continue
			}
			seen[st.scope] = true
			d := 90 + st.scope
			switch st.scope {
			case 1:
				p.Prelude = append(p.Prelude, Op{K: "sub", S: 0, D: d, Name: "a"})
			case 3:
				p.Prelude = append(p.Prelude, Op{K: "sub", S: 0, D: d, Name: "b"})
			case 4:
				p.Prelude = append(p.Prelude, Op{K: "tag", S: 0, D: d, Tags: map[string]string{"k": tw}})
			default:
				p.Prelude = append(p.Prelude, Op{K: "tag", S: 0, D: d, Tags: map[string]string{"k": tv}})
			}
			p.Prelude = append(p.Prelude, Op{K: "counter", S: d, M: d, Name: "old"}, Op{K: "inc", M: d, I: 1}, Op{K: "close", S: d})
		}
	}
	// histograms use bucket sets that collide in the root's shared bucket cache;
	// the set is tied to the name, so one identity always has one set
	fam := collidingFamily(g)
	specFor := map[string]*BucketSpec{names[0]: fam[0], names[1]: fam[1%len(fam)]}
	for t := 0; t < n; t++ {
		var ops []Op
		have := map[int]int{0: 0}
		nextS, nextM := 1, 1
		order := make([]int, len(script))
		for i := range order {
			order[i] = i
		}
		if g.Bool(40) {
			for i := len(order) - 1; i > 0; i-- {
				j := g.Intn(i + 1)
				order[i], order[j] = order[j], order[i]
			}
		}
		for _, si := range order {
			st := script[si]
			sv, ok := have[st.scope]
			if !ok {
				switch st.scope {
				case 1:
					ops = append(ops, Op{K: "sub", S: 0, D: nextS, Name: "a"})
				case 3:
					ops = append(ops, Op{K: "sub", S: 0, D: nextS, Name: "b"})
				case 4:
					ops = append(ops, Op{K: "tag", S: 0, D: nextS, Tags: map[string]string{"k": tw}})
				default:
					ops = append(ops, Op{K: "tag", S: 0, D: nextS, Tags: map[string]string{"k": tv}})
				}
				sv = nextS
				have[st.scope] = sv
				nextS++
			}
			op := Op{K: st.kind, S: sv, M: nextM, Name: st.kind[:1] + st.name}
			if st.kind == "hist" {
				op.B = specFor[st.name]
			}
			ops = append(ops, op)
			switch st.kind {
			case "counter":
				ops = append(ops, Op{K: "inc", M: nextM, I: int64(1 + g.Intn(3))})
			case "gauge":
				ops = append(ops, Op{K: "upd", M: nextM, F: f64bits(float64(100*t + si))})
			case "timer":
				ops = append(ops, Op{K: "rec", M: nextM, I: int64(1000*t + si + 1)})
			case "hist":
				if sp := specFor[st.name]; sp.Dur {
					ops = append(ops, Op{K: "recd", M: nextM, I: sp.Durs[g.Intn(len(sp.Durs))]})
				} else {
					ops = append(ops, Op{K: "recv", M: nextM, F: sp.Bits[g.Intn(len(sp.Bits))]})
				}
			}
			nextM++
		}
		if len(p.Prelude) > 0 && g.Bool(50) {
			ops = append(ops, Op{K: "inc", M: 50, I: 1})
		}
		p.Tasks = append(p.Tasks, ops)
	}
	settleEpilogue(g, p)
	return p
}

func checkC09(env *Env) []Violation {
	ops := env.OpsBeforeTeardown()
	out := checkC01(env)
	// same object for the same (scope object, kind, name) and for the same scope identity
	type mk struct {
		scope uintptr
		kind  string
		name  string
	}
	metrics := map[mk]uintptr{}
	scopes := map[string]uintptr{}
	first := map[mk]*OpRec{}
	anyClose := false
	for _, r := range ops {
		if r.Op.K == "close" || r.Op.K == "closeroot" {
			anyClose = true
		}
	}
	for _, r := range ops {
		switch r.Op.K {
		case "sub", "tag":
			sv, _ := r.Obj.(*scopeVar)
			if sv == nil || anyClose {
				continue
			}
			k := idKey(sv.model.Prefix, sv.model.Tags)
			if old, ok := scopes[k]; ok && old != sv.ptr {
				out = append(out, vf("scope-identity-split", "two requests for the scope with prefix %q tags %v returned different objects", sv.model.Prefix, sv.model.Tags))
			}
			scopes[k] = sv.ptr
		case "counter", "gauge", "timer", "hist":
			mv, _ := r.Obj.(*metricVar)
			if mv == nil || r.Panic != "" {
				continue
			}
			k := mk{mv.scope.ptr, mv.kind, env.Model.sanName(mv.name)}
			if old, ok := metrics[k]; ok && old != mv.ptr && !anyClose {
				out = append(out, vf("metric-identity-split", "%s %q requested twice from the same scope object returned different objects", mv.kind, mv.name))
			}
			if f, ok := first[k]; ok {
				if f.Ret == 0 || r.Inv < f.Ret {
					env.Probes.inc("overlapping_first_use")
				}
			} else {
				first[k] = r
			}
			metrics[k] = mv.ptr
		}
	}
	// cached path: at most one Allocate per (name, tags, kind) per live scope instance
	if !anyClose {
		seen := map[string]int{}
		for _, e := range env.Log.Events {
			switch e.Kind {
			case EvAllocC, EvAllocG, EvAllocT, EvAllocH:
				if env.isInternalID(e.Name, e.Tags) {
					continue
				}
				k := e.Kind + "|" + idKey(e.Name, e.Tags)
				seen[k]++
				if seen[k] == 2 {
					out = append(out, vf("double-allocate", "%s called twice for %q %v", e.Kind, e.Name, e.Tags))
				}
			case EvAllocVB, EvAllocDB:
				k := fmt.Sprintf("%s|%d|%v|%v|%v|%v", e.Kind, e.Parent, e.Lo, e.Hi, e.LoD, e.HiD)
				seen[k]++
				if seen[k] == 2 {
					out = append(out, vf("double-allocate", "bucket (%v,%v] of histogram %q allocated twice", e.Lo, e.Hi, e.Name))
				}
			}
		}
	}
	// histograms: each keeps its own bounds although the sets collide in the cache
	{
		ci := newCloseInfo(env, ops)
		hs := collectHists(env, ops, ci)
		if env.Cached != nil {
			out = append(out, checkTilingEvents(env, hs)...)
		}
		out = append(out, checkBucketDeliveries(env, ops, hs)...)
	}
	// timers: every recorded value delivered exactly once (C10 in detail; here as
	// "everything recorded through any of the returned handles is delivered")
	want := map[string]map[int64]int{}
	for _, r := range ops {
		if r.Op.K == "rec" && r.Ret != 0 {
			if mv, _ := r.Obj.(*metricVar); mv != nil {
				k := idKey(mv.FullName, mv.Tags)
				if want[k] == nil {
					want[k] = map[int64]int{}
				}
				want[k][r.Op.I]++
			}
		}
	}
	for _, d := range env.Deliveries() {
		if d.Kind == EvTimer {
			k := idKey(d.Name, d.Tags)
			if want[k] != nil {
				want[k][d.I]--
			}
		}
	}
	for k, m := range want {
		for v, n := range m {
			if n != 0 {
				out = append(out, vf("timer-delivery", "timer %s value %d: recorded-minus-delivered = %d", k, v, n))
			}
		}
	}
	return out
}
