// Package simtime has the API of package time. Everything is package time's own
// (the fake clock of testing/synctest is what makes it simulated) except for the
// two entry points through which code under test gets to run, or to wait,
// outside the scheduler's sight:
//
//   - Sleep parks again after waking (a scheduling point, like a channel wake);
//   - AfterFunc runs its callback as a task of the simulation;
//   - Now is time.Now with the wall-clock steps of the run's fault plan applied
//     (the monotonic reading is left alone, as a real clock step leaves it).
//
// time_gen.go re-exports the rest and is generated from package time's export
// data (types as aliases, constants as constants, functions and variables as
// variables), so that any identifier an edited tree may use is there.
package simtime

import (
	"time"
	"unsafe"

	"verifsim/simrt"
)

// Sleep pauses the calling task on the simulated clock.
func Sleep(d Duration) { simrt.Sleep(d) }

// AfterFunc is time.AfterFunc; during a run the callback is a library task.
func AfterFunc(d Duration, f func()) *Timer {
	if simrt.Active() == nil {
		return time.AfterFunc(d, f)
	}
	return time.AfterFunc(d, func() { simrt.RunCallback("time.AfterFunc", f) })
}

// Now is time.Now. In a run whose fault plan has wall-clock steps (NTP
// correction, VM resume) the wall reading is moved by the steps that have
// happened so far, and the value carries a monotonic reading (which a step does
// not touch) the way time.Now's values do outside a synctest bubble - inside
// one they have none, so that there would be nothing for a step to leave alone.
func Now() Time {
	t := time.Now()
	skew, mono, on := simrt.WallClock()
	if !on {
		return t
	}
	return withMono(t.Add(skew), mono)
}

// withMono gives t (a Time without a monotonic reading) the monotonic reading
// mono, in the encoding of package time: wall = 1<<63 | seconds since 1885 <<
// 30 | nanoseconds, ext = monotonic nanoseconds.
func withMono(t time.Time, mono time.Duration) time.Time {
	type repr struct {
		wall uint64
		ext  int64
		loc  *time.Location
	}
	r := (*repr)(unsafe.Pointer(&t))
	if r.wall&(1<<63) != 0 {
		return t
	}
	const wallToInternal = (1884*365 + 1884/4 - 1884/100 + 1884/400) * 86400
	sec := r.ext - wallToInternal
	if sec < 0 || sec >= 1<<33 {
		return t
	}
	r.wall = 1<<63 | uint64(sec)<<30 | r.wall&(1<<30-1)
	r.ext = int64(mono)
	return t
}
