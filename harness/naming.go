package harness

import (
	"fmt"
	"reflect"
	"sort"
	"strings"
	"unicode/utf8"

	tally "github.com/uber-go/tally/v4"
)

var (
	plainStrs = []string{"svc", "req", "a", "b", "latency", "x1", "A_b-c"}
	delimStrs = []string{"a,b", "a=b", "a+b", "1,b=2", "+", ",", "=", "x+y=z,w", "a\\", "\\", "x\\,b", "%", "a\\\\"}
	oddStrs   = []string{"", "é", "日本語", "🙂x", "\xff", "a\xc0b", "\xf0\x9f", "a b", "A-Z_9.z", ".", "�", "z{", "`a", "/9:"}
)

// genStr draws a string; classes are chosen by weight (plain, delimiter, odd).
func genStr(g *Gen, wPlain, wDelim, wOdd int) string {
	switch g.weighted(wPlain, wDelim, wOdd) {
	case 0:
		return plainStrs[g.Intn(len(plainStrs))]
	case 1:
		return delimStrs[g.Intn(len(delimStrs))]
	}
	return oddStrs[g.Intn(len(oddStrs))]
}

var sanMenu = []*SanOpts{
	{ // the prometheus-style alphanumeric + underscore
		Name:  ValidChars{Ranges: [][2]rune{{'a', 'z'}, {'A', 'Z'}, {'0', '9'}}, Chars: []rune{'_'}},
		Key:   ValidChars{Ranges: [][2]rune{{'a', 'z'}, {'A', 'Z'}, {'0', '9'}}, Chars: []rune{'_'}},
		Value: ValidChars{Ranges: [][2]rune{{'a', 'z'}, {'A', 'Z'}, {'0', '9'}}, Chars: []rune{'_'}},
		Repl:  '_',
	},
	{ // m3-style: dots and dashes allowed in names
		Name:  ValidChars{Ranges: [][2]rune{{'a', 'z'}, {'A', 'Z'}, {'0', '9'}}, Chars: []rune{'.', '-', '_'}},
		Key:   ValidChars{Ranges: [][2]rune{{'a', 'z'}, {'A', 'Z'}, {'0', '9'}}, Chars: []rune{'-', '_'}},
		Value: ValidChars{Ranges: [][2]rune{{'a', 'z'}, {'A', 'Z'}, {'0', '9'}}, Chars: []rune{'.', '-', '_', ':', '/'}},
		Repl:  '_',
	},
	{ // replacement rune that is itself not allowed; multi-byte range
		Name:  ValidChars{Ranges: [][2]rune{{'a', 'm'}, {0x3040, 0x30ff}}},
		Key:   ValidChars{Ranges: [][2]rune{{'a', 'z'}}},
		Value: ValidChars{Ranges: [][2]rune{{'0', '9'}, {'a', 'a'}}, Chars: []rune{'é'}},
		Repl:  '#',
	},
	{ // U+FFFD allowed
		Name:  ValidChars{Ranges: [][2]rune{{'a', 'z'}, {0xfff0, 0xffff}}},
		Key:   ValidChars{Ranges: [][2]rune{{'a', 'z'}}, Chars: []rune{0xfffd}},
		Value: ValidChars{Ranges: [][2]rune{{0, 0x10ffff}}},
		Repl:  '?',
	},
}

func genSanOpts(g *Gen) *SanOpts {
	if g.Bool(60) {
		return sanMenu[g.Intn(len(sanMenu))]
	}
	vc := func() ValidChars {
		var v ValidChars
		for i := g.Intn(4); i > 0; i-- {
			lo := rune(pick(g, 'a', 'A', '0', 'k', 0xe0, 0x3040, 0x1f600, 0xfff0, 'z'))
			hi := lo + rune(pick(g, 0, 0, 1, 9, 25, 200))
			if g.Bool(5) {
				hi = lo - 1 // empty range
			}
			v.Ranges = append(v.Ranges, [2]rune{lo, hi})
		}
		for i := g.Intn(4); i > 0; i-- {
			v.Chars = append(v.Chars, rune(pick(g, '_', '-', '.', 'é', '日', ':', ' ', 0xfffd, 'Ł', '中', 0x12e, 0x1f65f, 0x10041)))
		}
		return v
	}
	return &SanOpts{Name: vc(), Key: vc(), Value: vc(), Repl: rune(pick(g, '_', '_', '-', '#', 'é', '日', 'x'))}
}

// documentedKey is the documented format of tally's map key: prefix '+' then
// the sorted k=v pairs joined by ','.
func documentedKey(prefix string, tags map[string]string) string {
	keys := make([]string, 0, len(tags))
	for k := range tags {
		keys = append(keys, k)
	}
	sort.Strings(keys)
	var b strings.Builder
	if prefix != "" {
		b.WriteString(prefix)
		b.WriteByte('+')
	}
	for i, k := range keys {
		if i > 0 {
			b.WriteByte(',')
		}
		b.WriteString(k)
		b.WriteByte('=')
		b.WriteString(tags[k])
	}
	return b.String()
}

func hasDelim(s string) bool { return strings.ContainsAny(s, "+,=") }

func identityHasDelim(prefix string, tags map[string]string) bool {
	if hasDelim(prefix) {
		return true
	}
	for k, v := range tags {
		if hasDelim(k) || hasDelim(v) || k == "" {
			return true
		}
	}
	return false
}

// scopeIdentities lists the scope variables of a run with their model identity.
type scopeIdent struct {
	sv  *scopeVar
	rec *OpRec
	id  string // injective identity
	doc string // documented (possibly ambiguous) key
}

func collectScopes(ops []*OpRec) []scopeIdent {
	var out []scopeIdent
	for _, r := range ops {
		if r.Op.K != "sub" && r.Op.K != "tag" {
			continue
		}
		sv, _ := r.Obj.(*scopeVar)
		if sv == nil || r.Panic != "" {
			continue
		}
		out = append(out, scopeIdent{sv: sv, rec: r, id: idKey(sv.model.Prefix, sv.model.Tags), doc: documentedKey(sv.model.Prefix, sv.model.Tags)})
	}
	return out
}

// derivation is one way to arrive at a scope: an optional SubScope, then an
// optional Tagged.
type derivation struct {
	sub  string
	tags map[string]string
}

// escapeTwins returns pairs of different identities built around an escape
// character: whatever character an implementation uses to keep delimiters
// inside components apart from real delimiters must itself be told apart, or
// "x<esc>" followed by a real delimiter reads like "x" followed by an escaped
// one. Nothing here depends on which character (if any) the implementation uses.
func escapeTwins(g *Gen, pfx, k1, v1, k2, v2 string) [][2]derivation {
	esc := pick(g, "\\", "\\", "%", "\\\\")
	ka, kb := k1, k2
	if ka > kb+esc {
		ka, kb = k2, k1
	}
	return [][2]derivation{
		{{sub: pfx, tags: map[string]string{ka: v1 + esc, kb + esc: v2}}, {sub: pfx, tags: map[string]string{ka: v1 + "," + kb + "=" + v2}}},
		{{sub: pfx + esc, tags: map[string]string{k1: v1}}, {sub: "", tags: map[string]string{pfx + "+" + k1: v1}}},
	}
}

func (d derivation) ops(metricOps func(scope int) []Op) []Op {
	var ops []Op
	cur := 0
	if d.sub != "" {
		ops = append(ops, Op{K: "sub", S: 0, D: 1, Name: d.sub})
		cur = 1
	}
	if d.tags != nil {
		ops = append(ops, Op{K: "tag", S: cur, D: 2, Tags: d.tags})
		cur = 2
	}
	return append(ops, metricOps(cur)...)
}

// collidingIdentities returns the identities whose documented key is shared by a
// different identity (only possible when a component contains a delimiter).
func collidingIdentities(env *Env, scopes []scopeIdent) map[string]string {
	byDoc := map[string]map[string]bool{}
	rootM := env.Model.Root()
	add := func(id, doc string) {
		if byDoc[doc] == nil {
			byDoc[doc] = map[string]bool{}
		}
		byDoc[doc][id] = true
	}
	add(idKey(rootM.Prefix, rootM.Tags), documentedKey(rootM.Prefix, rootM.Tags))
	for _, s := range scopes {
		add(s.id, s.doc)
	}
	out := map[string]string{}
	for doc, ids := range byDoc {
		if len(ids) > 1 {
			for id := range ids {
				out[id] = doc
			}
		}
	}
	return out
}

// checkSeamStrings verifies that the maps handed to the reporter were not
// changed afterwards and, with a sanitizer, that every string is sanitised.
func checkSeamStrings(env *Env) []Violation {
	var out []Violation
	end := env.teardownSeq()
	san := env.Prog.Cfg.Sanitize
	for _, e := range env.Log.Events {
		if e.Seq >= end {
			break
		}
		if e.tagsIn != nil && !reflect.DeepEqual(e.tagsIn, e.Tags) {
			out = append(out, vf("reporter-tags-changed", "the tag map handed to the reporter for %q changed afterwards: was %v, now %v", e.Name, e.Tags, e.tagsIn))
		}
		if san == nil {
			continue
		}
		switch e.Kind {
		case EvFlush, EvRepClose:
			continue
		}
		if bad := firstInvalid(e.Name, san.Name, san.Repl); bad != "" {
			out = append(out, vf("unsanitized-name", "name %q handed to the reporter (%s) contains %s", e.Name, e.Kind, bad))
		}
		for k, v := range e.Tags {
			if bad := firstInvalid(k, san.Key, san.Repl); bad != "" {
				out = append(out, vf("unsanitized-key", "tag key %q of %q handed to the reporter contains %s", k, e.Name, bad))
			}
			if bad := firstInvalid(v, san.Value, san.Repl); bad != "" {
				out = append(out, vf("unsanitized-value", "tag value %q (key %q) of %q handed to the reporter contains %s", v, k, e.Name, bad))
			}
		}
	}
	return out
}

func firstInvalid(s string, vc ValidChars, repl rune) string {
	for i := 0; i < len(s); {
		r, w := utf8.DecodeRuneInString(s[i:])
		if r == utf8.RuneError && w <= 1 {
			return fmt.Sprintf("an invalid byte %#x at offset %d", s[i], i)
		}
		if !allowed(r, vc) && r != repl {
			return fmt.Sprintf("the character %q which is neither allowed nor the replacement", r)
		}
		i += w
	}
	return ""
}

// checkDeliveriesByIdentity is the ledger check shared by C04 and C05: what was
// recorded through a handle is delivered under exactly its modelled name and
// tags, nothing is delivered under any other identity.
func checkDeliveriesByIdentity(env *Env, ops []*OpRec, skip map[string]bool) []Violation {
	var out []Violation
	ci := newCloseInfo(env, ops)
	type led struct {
		name    string
		tags    map[string]string
		kind    string
		sum     int64
		optSum  bool
		timers  map[int64]int
		gauge   []uint64
		samples int64
	}
	leds := map[string]*led{}
	get := func(mv *metricVar) *led {
		k := mv.kind + "|" + idKey(mv.FullName, mv.Tags)
		l := leds[k]
		if l == nil {
			l = &led{name: mv.FullName, tags: mv.Tags, kind: mv.kind, timers: map[int64]int{}}
			leds[k] = l
		}
		return l
	}
	for _, r := range ops {
		mv, _ := r.Obj.(*metricVar)
		if mv == nil || r.Panic != "" {
			continue
		}
		l := get(mv)
		ob := ci.obligation(mv, r)
		if ob != required {
			if r.Op.K == "inc" || r.Op.K == "recv" || r.Op.K == "recd" || r.Op.K == "rec" || r.Op.K == "upd" {
				l.optSum = true
			}
			continue
		}
		switch r.Op.K {
		case "inc":
			l.sum += r.Op.I
		case "rec":
			l.timers[r.Op.I]++
		case "upd":
			l.gauge = append(l.gauge, r.Op.F)
		case "recv", "recd":
			l.samples++
		}
	}
	_, settled, haveSettle := opWindow(ops, "settle")
	if !haveSettle {
		settled = inf
	}
	kindOf := map[string]string{EvCounter: "counter", EvGauge: "gauge", EvTimer: "timer", EvHVal: "hist", EvHDur: "hist"}
	gotSum := map[string]int64{}
	gotSamples := map[string]int64{}
	gotTimers := map[string]map[int64]int{}
	lastGauge := map[string]uint64{}
	for _, d := range env.Deliveries() {
		if env.isInternalID(d.Name, d.Tags) {
			continue
		}
		id := idKey(d.Name, d.Tags)
		k := kindOf[d.Kind] + "|" + id
		l := leds[k]
		if l == nil {
			if skip[id] {
				continue
			}
			out = append(out, vf("unknown-identity", "%s delivered under name %q tags %v, which no handle of the program has", d.Kind, d.Name, d.Tags))
			continue
		}
		if d.Ev.Seq >= settled {
			continue
		}
		switch d.Kind {
		case EvCounter:
			gotSum[k] += d.I
		case EvHVal, EvHDur:
			gotSamples[k] += d.I
		case EvTimer:
			if gotTimers[k] == nil {
				gotTimers[k] = map[int64]int{}
			}
			gotTimers[k][d.I]++
		case EvGauge:
			lastGauge[k] = d.F
		}
	}
	if !haveSettle {
		return out
	}
	for k, l := range leds {
		id := idKey(l.name, l.tags)
		if skip[id] || l.optSum {
			continue
		}
		switch l.kind {
		case "counter":
			if gotSum[k] != l.sum {
				out = append(out, vf("wrong-identity-delivery", "counter %q %v: delivered %d under exactly this name and tags, recorded %d", l.name, l.tags, gotSum[k], l.sum))
			}
		case "hist":
			if gotSamples[k] != l.samples {
				out = append(out, vf("wrong-identity-delivery", "histogram %q %v: %d samples delivered under exactly this name and tags, recorded %d", l.name, l.tags, gotSamples[k], l.samples))
			}
		case "timer":
			for v, n := range l.timers {
				if gotTimers[k][v] != n {
					out = append(out, vf("wrong-identity-delivery", "timer %q %v: value %d recorded %d times, delivered %d times under exactly this name and tags", l.name, l.tags, v, n, gotTimers[k][v]))
				}
			}
		case "gauge":
			if len(l.gauge) > 0 {
				ok := false
				for _, g := range l.gauge {
					if g == lastGauge[k] {
						ok = true
					}
				}
				if _, have := lastGauge[k]; !have || !ok {
					out = append(out, vf("wrong-identity-delivery", "gauge %q %v: updated but its value was not delivered under exactly this name and tags", l.name, l.tags))
				}
			}
		}
	}
	return out
}

var _ = tally.DefaultSeparator

// spice varies the environment of a generated program (swarm style): the
// generators of the core properties write their programs with plain names and
// no sanitizer, so the code that maps a requested name to the name it is kept
// under never does anything in them. In a share of those programs a sanitizer
// is configured and every name, tag key and tag value gets a suffix that the
// sanitizer rewrites - consistently, so that equal strings stay equal and
// different ones different.
func spice(g *Gen, p *Program) {
	switch p.Prop {
	case "C01", "C02", "C03", "C07", "C08", "C10", "C20":
	default:
		return
	}
	c := &p.Cfg
	// another dimension nobody tests together with the rest: the separator
	if c.Separator == "" && c.Stack != "test" && c.Stack != "both" && g.Bool(15) {
		c.Separator = pick(g, "_", "::", "-", "/")
		if c.Flags == nil {
			c.Flags = map[string]int{}
		}
		c.Flags["separator"] = 1
	}
	if c.Sanitize != nil || (c.Stack != "plain" && c.Stack != "cached") || !g.Bool(12) {
		return
	}
	c.Sanitize = sanMenu[0]
	if c.Flags == nil {
		c.Flags = map[string]int{}
	}
	c.Flags["spiced"] = 1
	each := func(ops []Op) {
		for i := range ops {
			op := &ops[i]
			switch op.K {
			case "counter", "gauge", "timer", "hist", "sub":
				if op.Name != "" {
					op.Name += "-s"
				}
			}
			if op.Tags != nil {
				t := make(map[string]string, len(op.Tags))
				for k, v := range op.Tags {
					t[k+".s"] = v + "-s"
				}
				op.Tags = t
			}
		}
	}
	each(p.Prelude)
	for _, t := range p.Tasks {
		each(t)
	}
	each(p.Epilogue)
}
