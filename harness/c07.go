package harness

func init() {
	register(&Property{
		ID:    "C07",
		Gen:   genC07,
		Check: checkC07,
		Interest: func(env *Env) bool {
			return env.Sim.Stats.Preemptions > 0 && env.Probes.Custom["close_reacquire_cycles"] > 0 && (env.Probes.Custom["pass_during_cycle"] > 0 || env.Probes.OverlapPasses > 0)
		},
	})
}

func genC07(g *Gen, tier string) *Program {
	p := &Program{Prop: "C07"}
	c := &p.Cfg
	baseCfg(g, c)
	c.CPUs = pick(g, 1, 1, 1, 2)
	if g.Bool(70) {
		c.IntervalNs = 1e9
		g.schedule(c, c.IntervalNs)
	}
	maxOps := 10
	if tier == "thorough" {
		maxOps = 18
	}
	if g.Bool(30) {
		// a sanitizer that rewrites the tag values used below: the scope is then
		// registered under two keys (as given and sanitized)
		c.Sanitize = sanMenu[0]
		c.Flags = map[string]int{"dirtytags": 1}
	}
	// a fifth of the programs are about gauges (one updating task each): for them
	// the order in which a closed scope and its replacement are delivered matters
	wG, wU, own := 1, 1, false
	if g.Bool(25) {
		wG, wU, own = 3, 7, true
		if c.IntervalNs > 0 && c.Faults.SlowPct == 0 && g.Bool(60) {
			// a slow reporter call is what keeps a flush in flight long enough for
			// somebody else to get past it
			c.Faults.SlowPct = pick(g, 15, 40)
			c.Faults.SlowMenu = []int64{c.IntervalNs / 3, c.IntervalNs, 2*c.IntervalNs + 1}
		}
	}
	genWorkload(g, p, wlOpts{
		tasks: [2]int{1, 3}, ops: [2]int{4, maxOps}, scopes: pick(g, 1, 2, 3),
		wDerive: 3, wCounter: 3, wInc: 8, wClose: 4, wSleep: 1, wYield: 1, wGauge: wG, wUpd: wU, wHist: 1, wRecH: 1,
		reacquire: 85, closer: 10, values: pick(g, posMenu, posMenu, intMenu), ownGauge: own,
	})
	if own {
		// bystanders: tasks that request the scopes (and gauges) of another task
		// over and over without ever updating anything - the re-request that finds
		// the closed scope, and has to flush it, is then often not the updater's
		nt := len(p.Tasks)
		for ti := 0; ti < nt && len(p.Tasks) < 5; ti++ {
			var by []Op
			for _, op := range p.Tasks[ti] {
				if op.K == "sub" || op.K == "tag" || op.K == "gauge" {
					by = append(by, op)
					if g.Bool(30) {
						by = append(by, Op{K: "yield"})
					}
				}
			}
			if len(by) > 0 {
				p.Tasks = append(p.Tasks, by)
			}
		}
	}
	if c.Flags["dirtytags"] == 1 {
		for ti := range p.Tasks {
			for oi := range p.Tasks[ti] {
				if op := &p.Tasks[ti][oi]; op.K == "tag" {
					for k, v := range op.Tags {
						op.Tags[k] = v + "-x"
					}
				}
			}
		}
	}
	// children of (possibly) closed scopes
	for ti := range p.Tasks {
		ops := p.Tasks[ti]
		if g.Bool(40) && len(ops) > 2 {
			// derive from the task's most recently closed scope and record on the child
			for i := len(ops) - 1; i >= 0; i-- {
				if ops[i].K == "close" {
					s := ops[i].S
					extra := []Op{{K: "sub", S: s, D: 90, Name: "child"}, {K: "counter", S: 90, M: 90, Name: "cc"}, {K: "inc", M: 90, I: 5}}
					if g.Bool(50) {
						extra[0] = Op{K: "tag", S: s, D: 90, Tags: map[string]string{"c": "1"}}
					}
					pos := g.Range(i+1, len(ops))
					ops = append(ops[:pos], append(extra, ops[pos:]...)...)
					if g.Bool(50) {
						// the same child was also derived while the parent was live and
						// stays open: asking the closed parent for it again must still give
						// an inert scope, not the live child
						def := -1
						for j := 0; j < i; j++ {
							if (ops[j].K == "sub" || ops[j].K == "tag") && ops[j].D == s {
								def = j
							}
						}
						if def >= 0 {
							first := extra[0]
							first.D = 91
							if first.Tags != nil {
								first.Tags = copyTags(first.Tags)
							}
							pre := []Op{first, {K: "counter", S: 91, M: 91, Name: "cc"}, {K: "inc", M: 91, I: 3}}
							ppos := g.Range(def+1, i)
							ops = append(ops[:ppos], append(pre, ops[ppos:]...)...)
						}
					}
					break
				}
			}
			p.Tasks[ti] = ops
		}
	}
	settleEpilogue(g, p)
	return p
}

func checkC07(env *Env) []Violation {
	ops := env.OpsBeforeTeardown()
	out := checkC01(env) // conservation per identity with per-object obligations, no negative deltas, idle pass silent
	// For a gauge "everything recorded is delivered" means that the reporter ends
	// up with the last update: if a closed scope's value is delivered only after
	// its replacement's newer one (the scope dropped first and flushed later),
	// the reporter is left with the stale value. Every gauge of this profile has
	// a single updating task, so C02's clauses apply as they stand.
	for _, v := range checkC02(env) {
		if v.Class == "stale-value" || v.Class == "lost-update" {
			out = append(out, v)
		}
	}
	ci := newCloseInfo(env, ops)
	// probes
	for _, r := range ops {
		if r.Op.K == "sub" || r.Op.K == "tag" {
			sv, _ := r.Obj.(*scopeVar)
			if sv == nil {
				continue
			}
			// a re-request of an identity some object of which was closed earlier
			for _, q := range ops {
				if q.Op.K == "close" && q.Ret != 0 && q.Ret < r.Inv {
					if qs, _ := q.Obj.(*scopeVar); qs != nil && qs.ptr != sv.ptr && idKey(qs.model.Prefix, qs.model.Tags) == idKey(sv.model.Prefix, sv.model.Tags) {
						env.Probes.inc("close_reacquire_cycles")
						for _, e := range env.Log.Events {
							if e.Seq > q.Inv && e.Seq < r.Ret && (e.Kind == EvFlush || e.Kind == EvCounter) {
								env.Probes.inc("pass_during_cycle")
								break
							}
						}
						break
					}
				}
			}
		}
	}
	// "a scope obtained afterwards for the same prefix and tags is fully
	// functional": it must not be the inert scope when neither its parent nor the
	// root was closed
	for _, r := range ops {
		sv, _ := r.Obj.(*scopeVar)
		if sv == nil || (r.Op.K != "sub" && r.Op.K != "tag") {
			continue
		}
		if ci.liveness(sv) == live && sv.isNoop {
			out = append(out, vf("inert-live-scope", "%s returned the inert scope although neither its parent nor the root had been closed", r.Op.String()))
		}
		// a scope requested after the Close of an earlier scope object of the same
		// identity had returned must be a functional one, not that closed object
		if ret, ok := ci.ret[sv.ptr]; ok && ret < r.Inv && ci.liveness(sv) == live && env.Prog.Cfg.Stack != "test" {
			out = append(out, vf("closed-scope-returned", "%s (invoked at %d) returned the very scope object whose Close had returned at %d: what is recorded on it from now on can be dropped", r.Op.String(), r.Inv, ret))
		}
	}
	return out
}
