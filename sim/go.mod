module verifsim

go 1.20
