package harness

import (
	"fmt"
	"math"
	"sort"
)

const inf = math.MaxInt

// closeTimes returns, per scope object, the sequence number at which Close was
// first invoked on it, and the first invoke of the root's Close.
func closeTimes(ops []*OpRec) (map[uintptr]int, int) {
	per := map[uintptr]int{}
	root := inf
	for _, r := range ops {
		switch r.Op.K {
		case "settle":
			if r.Inv < root && r.Op.N == 1 {
				// the settle step may close the root; it runs after every task has joined
				root = r.Inv
			}
		case "close":
			if r.Ptr != 0 {
				if old, ok := per[r.Ptr]; !ok || r.Inv < old {
					per[r.Ptr] = r.Inv
				}
			}
		case "closeroot":
			if r.Inv < root {
				root = r.Inv
			}
		}
	}
	return per, root
}

func (env *Env) rootPtr() uintptr { return env.main.scopes[0].ptr }

// closeOf returns the sequence number from which operations on the scope
// object are no longer required to be delivered.
func closeOf(sv *scopeVar, per map[uintptr]int, root int, rootPtr uintptr) int {
	c := root
	if sv.ptr != rootPtr {
		if x, ok := per[sv.ptr]; ok && x < c {
			c = x
		}
	}
	return c
}

// closeInfo records when Close was invoked on / returned for scope objects.
type closeInfo struct {
	inv, ret map[uintptr]int // first invoke, first return per scope object
	rootInv  int             // first invoke of the root's Close
	rootRet  int             // first return of a root Close call
	rootPtr  uintptr
}

func newCloseInfo(env *Env, ops []*OpRec) *closeInfo {
	ci := &closeInfo{inv: map[uintptr]int{}, ret: map[uintptr]int{}, rootInv: inf, rootRet: inf, rootPtr: env.rootPtr()}
	// "Test scopes and their metrics survive Close of a subscope" (C11): on a test
	// scope the Close of a subscope ends nothing - the scope, and whatever is
	// derived from it afterwards, goes on recording and showing up in snapshots.
	testScope := env.Prog.Cfg.Stack == "test"
	for _, r := range ops {
		switch r.Op.K {
		case "close":
			if r.Ptr == 0 || (testScope && r.Ptr != ci.rootPtr) {
				continue
			}
			if r.Ptr == ci.rootPtr {
				ci.noteRoot(r)
				continue
			}
			if old, ok := ci.inv[r.Ptr]; !ok || r.Inv < old {
				ci.inv[r.Ptr] = r.Inv
			}
			if r.Ret != 0 {
				if old, ok := ci.ret[r.Ptr]; !ok || r.Ret < old {
					ci.ret[r.Ptr] = r.Ret
				}
			}
		case "closeroot":
			ci.noteRoot(r)
		case "settle":
			if r.Op.N == 1 || env.Prog.Cfg.IntervalNs <= 0 {
				ci.noteRoot(r)
			}
		}
	}
	return ci
}

func (ci *closeInfo) noteRoot(r *OpRec) {
	if r.Inv < ci.rootInv {
		ci.rootInv = r.Inv
	}
	if r.Ret != 0 && r.Ret < ci.rootRet {
		ci.rootRet = r.Ret
	}
}

// closedFrom returns the sequence number at which Close was first invoked on
// the scope object or on the root, and the one at which such a call first returned.
func (ci *closeInfo) closedFrom(sv *scopeVar) (inv, ret int) {
	inv, ret = ci.rootInv, ci.rootRet
	if x, ok := ci.inv[sv.ptr]; ok && x < inv {
		inv = x
	}
	if x, ok := ci.ret[sv.ptr]; ok && x < ret {
		ret = x
	}
	return
}

// Liveness of a scope variable according to the statements of C07/C08: a scope
// derived from a scope whose Close had already returned is inert; one derived
// while a Close was in progress may be either.
const (
	live     = 0
	maybe    = 1
	inertVar = 2
)

func (ci *closeInfo) liveness(sv *scopeVar) int {
	st := live
	for v := sv; v != nil && v.parent != nil; v = v.parent {
		inv, ret := ci.closedFrom(v.parent)
		d := v.def
		switch {
		case ret < d.Inv:
			return inertVar
		case inv < d.Ret || d.Ret == 0:
			st = maybe
		}
	}
	return st
}

// Obligation of one recording operation.
const (
	required  = 0
	optional  = 1
	forbidden = 2
)

// obligation classifies a recording operation r on metric mv: required if it
// completed on a live scope before any Close of that scope (or the root) was
// invoked, forbidden if the scope is inert by the model, optional otherwise.
func (ci *closeInfo) obligation(mv *metricVar, r *OpRec) int {
	switch ci.liveness(mv.scope) {
	case inertVar:
		return forbidden
	case maybe:
		return optional
	}
	inv, _ := ci.closedFrom(mv.scope)
	// the metric handle itself must have been obtained before the close as well
	if r.Ret != 0 && r.Ret < inv && mv.def.Ret != 0 && mv.def.Ret < inv {
		return required
	}
	return optional
}

// ledger accumulates, per identity, what must and what may be delivered.
type ledger struct {
	key      string
	name     string
	tags     map[string]string
	req      int64   // wrapping sum of required values
	opt      []int64 // optional values
	nReq     int
	nonneg   bool
	overflow bool // running total left the int64 range at some point
	run      float64
	kind     string
}

type ledgers struct {
	m     map[string]*ledger
	alias map[string]string
}

func newLedgers() *ledgers { return &ledgers{m: map[string]*ledger{}, alias: map[string]string{}} }

func (ls *ledgers) get(mv *metricVar) *ledger {
	k := idKey(mv.FullName, mv.Tags)
	l := ls.m[k]
	if l == nil {
		l = &ledger{key: k, name: mv.FullName, tags: mv.Tags, nonneg: true, kind: mv.kind}
		ls.m[k] = l
	}
	if mv.AltName != "" && mv.AltName != mv.FullName {
		ls.alias[idKey(mv.AltName, mv.Tags)] = k
	}
	return l
}

func (ls *ledgers) lookup(name string, tags map[string]string) *ledger {
	k := idKey(name, tags)
	if l := ls.m[k]; l != nil {
		return l
	}
	if a, ok := ls.alias[k]; ok {
		return ls.m[a]
	}
	return nil
}

func (l *ledger) add(v int64, required bool) {
	if v < 0 {
		l.nonneg = false
	}
	l.run += float64(v)
	if math.Abs(l.run) > 9e18 {
		l.overflow = true
	}
	if required {
		l.req += v
		l.nReq++
	} else {
		l.opt = append(l.opt, v)
	}
}

// admits reports whether delivered equals the required sum plus the sum of
// some subset of the optional values (wrapping arithmetic).
func (l *ledger) admits(delivered int64) bool {
	if len(l.opt) == 0 {
		return delivered == l.req
	}
	if len(l.opt) > 18 {
		// too many optional values to enumerate: accept (counted by the caller)
		return true
	}
	sums := map[int64]bool{l.req: true}
	for _, o := range l.opt {
		next := make(map[int64]bool, 2*len(sums))
		for s := range sums {
			next[s] = true
			next[s+o] = true
		}
		sums = next
	}
	return sums[delivered]
}

// pass is one report pass as seen at the reporter seam: the deliveries a task
// makes up to and including a Flush.
type pass struct {
	task       int
	begin, end int // sequence numbers (begin of first event, end of flush)
	flush      *Event
	n          int
}

// passes reconstructs report passes from the event log. A pass of task T begins
// at T's first reporter call after its previous Flush ended, and ends with the
// Flush. (Timer deliveries are forwarded synchronously by Record and are not
// part of a pass; allocation calls are not either.)
func (env *Env) passes() []pass {
	open := map[int]*pass{}
	var out []pass
	for _, e := range env.Log.Events {
		switch e.Kind {
		case EvCounter, EvGauge, EvHVal, EvHDur:
			p := open[e.Task]
			if p == nil {
				p = &pass{task: e.Task, begin: e.Seq}
				open[e.Task] = p
			}
			p.n++
		case EvFlush:
			p := open[e.Task]
			if p == nil {
				p = &pass{task: e.Task, begin: e.Seq}
			}
			p.flush = e
			p.end = e.EndSeq
			if p.end == 0 {
				p.end = inf
			}
			out = append(out, *p)
			delete(open, e.Task)
		}
	}
	for _, p := range open {
		p.end = inf
		out = append(out, *p)
	}
	sort.Slice(out, func(i, j int) bool { return out[i].begin < out[j].begin })
	return out
}

func overlapping(ps []pass) int {
	n := 0
	for i := range ps {
		for j := i + 1; j < len(ps); j++ {
			if ps[j].begin > ps[i].end {
				break
			}
			if ps[i].task != ps[j].task {
				n++
			}
		}
	}
	return n
}

func vf(class, format string, a ...interface{}) Violation {
	return Violation{Class: class, Msg: fmt.Sprintf(format, a...)}
}

// opPanics turns panics recorded by the executor into violations.
func opPanics(ops []*OpRec, allow func(r *OpRec) bool) []Violation {
	var out []Violation
	for _, r := range ops {
		if r.Panic != "" && (allow == nil || !allow(r)) {
			st, _ := r.Extra.(string)
			if len(st) > 1200 {
				st = st[:1200]
			}
			out = append(out, vf("panic", "operation %s (task %d #%d) panicked: %s\n%s", r.Op.String(), r.Task, r.Idx, r.Panic, st))
		}
	}
	return out
}

// opWindow returns invoke and return sequence numbers of the first completed
// operation of the given kind executed by the epilogue, or ok=false.
func opWindow(ops []*OpRec, kind string) (inv, ret int, ok bool) {
	for _, r := range ops {
		if r.Op.K == kind && r.Task == -2 && r.Ret != 0 && r.Panic == "" {
			if complete, _ := r.Extra.(bool); complete {
				return r.Inv, r.Ret, true
			}
			return 0, 0, false
		}
	}
	return 0, 0, false
}

func sprintf(format string, a ...interface{}) string { return fmt.Sprintf(format, a...) }
