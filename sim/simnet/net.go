// Package simnet replaces the UDP part of package net for m3/thriftudp during
// simulation: sockets are in-memory, every datagram handed to a socket is
// recorded, and sends can be made to fail by the run's fault plan.
package simnet

import (
	"context"
	"errors"
	"net"
	"os"
	"syscall"
	"time"
	"unsafe"

	"verifsim/simrt"
)

type (
	Addr       = net.Addr
	UDPAddr    = net.UDPAddr
	IP         = net.IP
	PacketConn = net.PacketConn
	Conn       = net.Conn
	Error      = net.Error
	OpError    = net.OpError
)

// ErrClosed is net.ErrClosed.
var ErrClosed = net.ErrClosed

// Datagram is one datagram handed to a simulated socket.
type Datagram struct {
	Conn  int    // socket id in creation order
	Dest  string // destination address
	Data  []byte // copy of the payload
	Step  int    // scheduler step at which the write happened
	Task  int    // writing task
	Err   string // non-empty: the send failed with this error and nothing was delivered
	Index int    // position in Network.Log
	Seq   int    // global history sequence number (set by the harness hook)
}

// Network is the simulated network of one run.
type Network struct {
	Log   []Datagram
	Conns []*UDPConn
	// SendFault, if set, is consulted for every send; a non-nil error makes the
	// send fail (the datagram is recorded with Err set).
	SendFault func(c *UDPConn, nth int, size int) error
	// DialFault, if set, can make DialUDP fail.
	DialFault func(dest string) error
	// Hook, if set, is called for every datagram handed to a socket, before the fault decision.
	Hook   func(d *Datagram)
	Faults int
}

// Net is the network of the current run; the harness replaces it per run.
var Net = &Network{}

// UDPConn is an in-memory UDP socket.
type UDPConn struct {
	ID     int
	local  *UDPAddr
	remote *UDPAddr
	closed bool
	Sent   int
	nw     *Network
	real   *net.UDPConn // outside a simulation (shim self-test): the real socket
}

// ResolveUDPAddr resolves numeric addresses without touching the network.
func ResolveUDPAddr(network, address string) (*UDPAddr, error) {
	return net.ResolveUDPAddr(network, address)
}

// DialUDP creates a simulated connected socket.
//
//go:norace
func DialUDP(network string, laddr, raddr *UDPAddr) (*UDPConn, error) {
	if simrt.Active() == nil {
		rc, err := net.DialUDP(network, laddr, raddr)
		if err != nil {
			return nil, err
		}
		return &UDPConn{real: rc, remote: raddr}, nil
	}
	nw := Net
	if raddr == nil {
		return nil, &net.OpError{Op: "dial", Net: network, Err: errors.New("missing address")}
	}
	if nw.DialFault != nil {
		if err := nw.DialFault(raddr.String()); err != nil {
			return nil, &net.OpError{Op: "dial", Net: network, Addr: raddr, Err: err}
		}
	}
	if laddr == nil {
		laddr = &UDPAddr{IP: net.IPv4(127, 0, 0, 1), Port: 40000 + len(nw.Conns)}
	}
	c := &UDPConn{ID: len(nw.Conns), local: laddr, remote: raddr, nw: nw}
	nw.Conns = simrt.AppendNR(nw.Conns, c)
	return c, nil
}

// ListenUDP creates a simulated listening socket.
func ListenUDP(network string, laddr *UDPAddr) (*UDPConn, error) {
	if simrt.Active() == nil {
		rc, err := net.ListenUDP(network, laddr)
		if err != nil {
			return nil, err
		}
		return &UDPConn{real: rc}, nil
	}
	nw := Net
	if laddr == nil {
		laddr = &UDPAddr{IP: net.IPv4(127, 0, 0, 1), Port: 50000 + len(nw.Conns)}
	}
	c := &UDPConn{ID: len(nw.Conns), local: laddr, nw: nw}
	nw.Conns = append(nw.Conns, c)
	return c, nil
}

// ListenConfig mirrors net.ListenConfig.
type ListenConfig struct {
	Control   func(network, address string, c syscall.RawConn) error
	KeepAlive time.Duration
}

// ListenPacket creates a simulated listening socket.
func (lc *ListenConfig) ListenPacket(ctx context.Context, network, address string) (PacketConn, error) {
	a, err := net.ResolveUDPAddr(network, address)
	if err != nil {
		return nil, err
	}
	return ListenUDP(network, a)
}

func (c *UDPConn) opErr(op string, err error) error {
	return &net.OpError{Op: op, Net: "udp", Source: c.local, Addr: c.remote, Err: err}
}

// Closed reports whether the socket was closed.
func (c *UDPConn) Closed() bool { return c.closed }

// Remote returns the destination as a string.
func (c *UDPConn) Remote() string {
	if c.remote == nil {
		return ""
	}
	return c.remote.String()
}

// Write sends one datagram.
//
//go:norace
func (c *UDPConn) Write(b []byte) (int, error) {
	if c.real != nil {
		return c.real.Write(b)
	}
	simrt.Point(simrt.OpNet, unsafe.Pointer(c))
	nw := c.nw
	c.Sent++
	d := Datagram{Conn: c.ID, Dest: c.Remote(), Data: append([]byte(nil), b...), Task: simrt.SelfID(), Index: len(nw.Log)}
	if s := simrt.Active(); s != nil {
		d.Step = s.Step()
	}
	if nw.Hook != nil {
		nw.Hook(&d)
	}
	if c.closed {
		d.Err = "use of closed network connection"
		nw.Log = simrt.AppendNR(nw.Log, d)
		return 0, c.opErr("write", net.ErrClosed)
	}
	if nw.SendFault != nil {
		if err := nw.SendFault(c, c.Sent, len(b)); err != nil {
			d.Err = err.Error()
			nw.Faults++
			nw.Log = simrt.AppendNR(nw.Log, d)
			return 0, c.opErr("write", err)
		}
	}
	nw.Log = simrt.AppendNR(nw.Log, d)
	return len(b), nil
}

// Read is not supported by the simulated network (tally only sends).
func (c *UDPConn) Read(b []byte) (int, error) {
	if c.real != nil {
		return c.real.Read(b)
	}
	if c.closed {
		return 0, c.opErr("read", net.ErrClosed)
	}
	return 0, c.opErr("read", os.ErrDeadlineExceeded)
}

// Close closes the socket.
//
//go:norace
func (c *UDPConn) Close() error {
	if c.real != nil {
		return c.real.Close()
	}
	simrt.Point(simrt.OpNet, unsafe.Pointer(c))
	if c.closed {
		return c.opErr("close", net.ErrClosed)
	}
	c.closed = true
	return nil
}

// ForceClose closes the socket from the harness (destination closed mid-run)
// without a scheduling point.
//
//go:norace
func (c *UDPConn) ForceClose() { c.closed = true }

func (c *UDPConn) LocalAddr() Addr {
	if c.real != nil {
		return c.real.LocalAddr()
	}
	if c.local == nil {
		return nil
	}
	return c.local
}

func (c *UDPConn) RemoteAddr() Addr {
	if c.real != nil {
		return c.real.RemoteAddr()
	}
	if c.remote == nil {
		return nil
	}
	return c.remote
}

func (c *UDPConn) SetDeadline(t time.Time) error      { return nil }
func (c *UDPConn) SetReadDeadline(t time.Time) error  { return nil }
func (c *UDPConn) SetWriteDeadline(t time.Time) error { return nil }
func (c *UDPConn) SetReadBuffer(n int) error          { return nil }

func (c *UDPConn) SetWriteBuffer(n int) error {
	if c.real != nil {
		return c.real.SetWriteBuffer(n)
	}
	return nil
}

func (c *UDPConn) ReadFrom(b []byte) (int, Addr, error) {
	n, err := c.Read(b)
	return n, nil, err
}

func (c *UDPConn) ReadFromUDP(b []byte) (int, *UDPAddr, error) {
	n, err := c.Read(b)
	return n, nil, err
}

func (c *UDPConn) WriteTo(b []byte, addr Addr) (int, error) { return c.Write(b) }

func (c *UDPConn) WriteToUDP(b []byte, addr *UDPAddr) (int, error) { return c.Write(b) }

// IPv4 is net.IPv4.
func IPv4(a, b, c, d byte) IP { return net.IPv4(a, b, c, d) }

// JoinHostPort is net.JoinHostPort.
func JoinHostPort(host, port string) string { return net.JoinHostPort(host, port) }

// SplitHostPort is net.SplitHostPort.
func SplitHostPort(hostport string) (string, string, error) { return net.SplitHostPort(hostport) }
