package harness

import "fmt"

func init() {
	register(&Property{
		ID:    "C01",
		Gen:   genC01,
		Check: checkC01,
		Interest: func(env *Env) bool {
			return env.Sim.Stats.Preemptions > 0 && env.Probes.OverlapPasses > 0
		},
		Rule: "programs of 1-3 incrementing tasks over <=3 scopes x <=2 counters (+ histogram samples), close/re-request cycles, an optional concurrent root Close, plain or cached recording reporter, seeded schedule/clock/map-order/slow-reporter faults; a run is non-trivial when at least one preemption happened and two report passes (ticker, Close, re-acquire) overlapped in time; distinct = distinct (program hash, preemption signature)",
	})
}

// scopeChoices builds a few derivations of small depth over few identities.
type scopeDef struct {
	k    string // "root" "sub" "tag"
	name string
	tags map[string]string
}

var smallScopes = []scopeDef{
	{k: "root"},
	{k: "sub", name: "a"},
	{k: "sub", name: "b"},
	{k: "tag", tags: map[string]string{"k": "v"}},
	{k: "tag", tags: map[string]string{"k": "w"}},
}

func baseCfg(g *Gen, c *Config) {
	c.Stack = pick(g, "plain", "cached")
	c.IntervalNs = pick(g, int64(0), int64(1e9), int64(1e9))
	c.CPUs = pick(g, 1, 1, 2, 4)
	c.OmitCard = g.Bool(50)
	if g.Bool(40) && c.IntervalNs > 0 {
		c.Faults.SlowPct = pick(g, 5, 15, 40)
		c.Faults.SlowMenu = []int64{c.IntervalNs / 3, c.IntervalNs, 2*c.IntervalNs + 1}
	}
	c.Faults.HasCloser = g.Bool(30)
	g.schedule(c, c.IntervalNs)
}

func genC01(g *Gen, tier string) *Program {
	p := &Program{Prop: "C01"}
	c := &p.Cfg
	baseCfg(g, c)
	nonneg := g.Bool(60)
	menu := intMenu
	if nonneg {
		menu = posMenu
	}
	nTasks := g.Range(1, 3)
	maxOps := 8
	if tier == "thorough" {
		maxOps = 14
	}
	nScopes := g.Range(1, 3)
	defs := make([]scopeDef, nScopes)
	for i := range defs {
		defs[i] = smallScopes[g.Intn(len(smallScopes))]
	}
	names := []string{"c0", "c1"}
	closer := g.Bool(35)
	for t := 0; t < nTasks; t++ {
		var ops []Op
		nextS, nextM := 1, 1
		type sv struct{ v, def int }
		var scopes []sv
		var counters, hists []int
		derive := func(di int) int {
			d := defs[di]
			switch d.k {
			case "root":
				return 0
			case "sub":
				ops = append(ops, Op{K: "sub", S: 0, D: nextS, Name: d.name})
			case "tag":
				ops = append(ops, Op{K: "tag", S: 0, D: nextS, Tags: copyTags(d.tags)})
			}
			nextS++
			return nextS - 1
		}
		n := g.Range(3, maxOps)
		for len(ops) < n {
			switch g.weighted(3, 3, 8, 2, 1, 2, 1) {
			case 0: // derive a scope
				di := g.Intn(nScopes)
				scopes = append(scopes, sv{derive(di), di})
			case 1: // obtain a counter
				if len(scopes) == 0 {
					di := g.Intn(nScopes)
					scopes = append(scopes, sv{derive(di), di})
				}
				s := scopes[g.Intn(len(scopes))]
				ops = append(ops, Op{K: "counter", S: s.v, M: nextM, Name: names[g.Intn(len(names))]})
				counters = append(counters, nextM)
				nextM++
			case 2: // increment
				if len(counters) == 0 {
					continue
				}
				ops = append(ops, Op{K: "inc", M: counters[g.Intn(len(counters))], I: menu[g.Intn(len(menu))]})
			case 3: // close a subscope (and typically re-request it)
				if len(scopes) == 0 {
					continue
				}
				s := scopes[g.Intn(len(scopes))]
				if s.v == 0 {
					continue
				}
				ops = append(ops, Op{K: "close", S: s.v})
				if g.Bool(80) {
					scopes = append(scopes, sv{derive(s.def), s.def})
				}
			case 4: // a pause on the fake clock
				if c.IntervalNs > 0 {
					ops = append(ops, Op{K: "sleep", I: pick(g, c.IntervalNs/2, c.IntervalNs, 3*c.IntervalNs/2)})
				}
			case 5: // histogram
				if len(scopes) == 0 {
					continue
				}
				s := scopes[g.Intn(len(scopes))]
				ops = append(ops, Op{K: "hist", S: s.v, M: nextM, Name: "h", B: &BucketSpec{Bits: []uint64{f64bits(1), f64bits(2)}}})
				hists = append(hists, nextM)
				nextM++
			case 6:
				if len(hists) == 0 {
					continue
				}
				ops = append(ops, Op{K: "recv", M: hists[g.Intn(len(hists))], F: f64bits(pick(g, 0.5, 1, 1.5, 2, 3))})
			}
		}
		p.Tasks = append(p.Tasks, ops)
	}
	if closer {
		var ops []Op
		if c.IntervalNs > 0 && g.Bool(70) {
			ops = append(ops, Op{K: "sleep", I: pick(g, c.IntervalNs/2, c.IntervalNs, c.IntervalNs+1, 2*c.IntervalNs)})
		}
		for i := g.Intn(3); i > 0; i-- {
			ops = append(ops, Op{K: "yield"})
		}
		ops = append(ops, Op{K: "closeroot"})
		p.Tasks = append(p.Tasks, ops)
	}
	// epilogue: one more report after activity has stopped, then an idle one
	if c.IntervalNs > 0 && g.Bool(60) {
		p.Epilogue = append(p.Epilogue, Op{K: "settle"}, Op{K: "idlepass"})
		if g.Bool(50) {
			p.Epilogue = append(p.Epilogue, Op{K: "closeroot"})
		}
	} else {
		p.Epilogue = append(p.Epilogue, Op{K: "settle", N: 1})
	}
	return p
}

func checkC01(env *Env) []Violation {
	ops := env.OpsBeforeTeardown()
	dels := env.Deliveries()
	var out []Violation
	out = append(out, opPanics(ops, nil)...)
	ci := newCloseInfo(env, ops)
	ps := env.passes()
	env.Probes.OverlapPasses = overlapping(ps)

	counters := newLedgers()
	hists := newLedgers()
	for _, r := range ops {
		mv, _ := r.Obj.(*metricVar)
		if mv == nil {
			continue
		}
		ob := ci.obligation(mv, r)
		switch r.Op.K {
		case "inc":
			if ob != forbidden {
				counters.get(mv).add(r.Op.I, ob == required)
			}
		case "recv", "recd":
			if ob != forbidden {
				hists.get(mv).add(1, ob == required)
			}
		case "counter":
			counters.get(mv)
		case "hist":
			hists.get(mv)
		}
	}
	// The conservation clause speaks about the moment "once activity has stopped
	// and one more report has run": the end of the epilogue's settle step. Without
	// a completed settle step the run is no witness for it.
	_, settled, haveSettle := opWindow(ops, "settle")
	idleFrom, idleTo, haveIdle := opWindow(ops, "idlepass")
	if !haveSettle {
		settled = inf
	}
	if !haveIdle || !haveSettle || idleFrom < settled {
		idleFrom, idleTo = inf, inf
	}
	sumC := map[string]int64{}
	sumH := map[string]int64{}
	for _, d := range dels {
		if env.isInternalID(d.Name, d.Tags) {
			continue
		}
		switch d.Kind {
		case EvCounter:
			l := counters.lookup(d.Name, d.Tags)
			if l == nil {
				out = append(out, vf("unknown-identity", "counter delivered under a name/tag set no handle has: %s", d.Ev))
				continue
			}
			if d.Ev.Seq < settled {
				sumC[l.key] += d.I
			}
			if l.nonneg && !l.overflow && d.I < 0 {
				out = append(out, vf("negative-delta", "negative delta %d delivered for %q %v although every increment was non-negative", d.I, d.Name, d.Tags))
			}
			if d.Ev.Seq > idleFrom && d.Ev.Seq < idleTo {
				out = append(out, vf("idle-delivery", "a report with no new increments delivered %d for counter %q %v", d.I, d.Name, d.Tags))
			}
		case EvHVal, EvHDur:
			l := hists.lookup(d.Name, d.Tags)
			if l == nil {
				out = append(out, vf("unknown-identity", "histogram samples delivered under a name/tag set no handle has: %s", d.Ev))
				continue
			}
			if d.Ev.Seq < settled {
				sumH[l.key] += d.I
			}
			if d.I < 0 {
				out = append(out, vf("negative-delta", "negative sample count %d delivered for histogram %q %v", d.I, d.Name, d.Tags))
			}
			if d.Ev.Seq > idleFrom && d.Ev.Seq < idleTo {
				out = append(out, vf("idle-delivery", "a report with no new samples delivered %d for histogram %q %v", d.I, d.Name, d.Tags))
			}
		}
	}
	if !haveSettle {
		return out
	}
	for k, l := range counters.m {
		if !l.admits(sumC[k]) {
			out = append(out, vf("conservation", "counter %q %v: delivered sum %d, increments while live sum %d (+ optional %v)", l.name, l.tags, sumC[k], l.req, l.opt))
		}
	}
	for k, l := range hists.m {
		if !l.admits(sumH[k]) {
			out = append(out, vf("conservation-hist", "histogram %q %v: delivered samples %d, recorded while live %d (+ optional %d)", l.name, l.tags, sumH[k], l.req, len(l.opt)))
		}
	}
	return out
}

var _ = fmt.Sprint
