#!/usr/bin/env python3
"""Regenerates MANIFEST.json from the table below (keep this table as the single source)."""
import json, subprocess

CLAIMED = {
 # id: (design section, technique, level text, level note)
 "C01": ("6/C01", "deterministic simulation: seeded schedules of increments vs ticker / Close / re-acquire report passes, conservation ledger oracle",
         "Seeded search over interleavings of incrementing tasks with the periodic report loop, the root's Close and report-on-reacquire (plain and cached recording reporters, slow-reporter and clock faults, seeded map order and shard placement); per identity the delivered sum must equal the increments applied while the scope was live, no negative delta for non-negative histories, nothing delivered by an idle pass. Exploration: a clean batch is evidence, not proof.",
         "Trusts the shim fidelity (sync, atomics, channels modelled at operation granularity; Go atomics are SC), testing/synctest's fake clock, and the ledger model; yields only at synchronisation operations."),
 "C02": ("6/C02", "deterministic simulation: seeded schedules of one updater per gauge vs concurrent report passes, latest-value oracle over the recorded history",
         "Seeded search over interleavings of Update (two atomic stores) with report passes (swap + load) from the ticker, Close and report-on-reacquire; unique bit patterns incl. NaN payloads, infinities, -0, subnormals; bystander tasks requesting the same gauge concurrently without updating it; every delivered value must have been passed to Update earlier, deliveries never outnumber updates, no single update is delivered twice (a value delivered more often than it was passed to Update although every such Update had returned before its first delivery), after updates stop and a complete pass ran the reporter's most recent value is the last update, an idle pass re-delivers nothing. Exploration.",
         "As C01; pass boundaries are taken from the reporter seam (Flush), not from internals."),
 "C07": ("6/C07", "deterministic simulation: seeded schedules of obtain/record/Close/re-request cycles vs report passes, per-scope-object obligation ledger",
         "Seeded search over interleavings of {obtain subscope, record, Close, obtain again, record} cycles on 1-3 identities sharing registry shards with the periodic pass, report-on-reacquire and (sometimes) the root's Close; obligations are kept per returned scope object (recorded before its Close was invoked = required, overlapping or later = optional, through a scope derived from an already closed scope = forbidden, also when the same child was derived earlier and is still live); delivered sums must match, a re-requested scope must be functional, no panic or deadlock. Exploration.",
         "As C01."),
 "C08": ("6/C08", "deterministic simulation: Close injected at seeded points (before/between/inside a periodic pass, inside a slow reporter call, 1-3 concurrent callers), ordered-log barrier oracle",
         "Seeded search over the point at which 1-3 tasks call the root's Close relative to the ticker and to slow reporter calls, with recorders that keep using old handles and request new scopes afterwards, reporters with and without io.Closer and with a failing Close; the ordered reporter log must show everything recorded before the first Close call delivered, then a Flush, then exactly one reporter Close, all before any Close call returns, nothing running or starting afterwards, the root's goroutine gone, later Close calls nil. Exploration.",
         "As C01; 'no reporter call ever again' excludes allocations and the synchronous forwarding of Timer.Record on old handles (C10)."),
 "C09": ("6/C09", "deterministic simulation: 2-4 tasks released together perform overlapping first uses while others record and a pass runs; identity + allocate-once + conservation oracle",
         "Seeded search over interleavings of concurrent first-use registrations of the same counters, gauges, timers, histograms and child scopes (1-64 registry shards) with recording on registered metrics and report passes; all callers must receive the same object, a cached reporter sees at most one Allocate per (name, tags, kind) and one bucket allocation per bucket, everything recorded through any handle is delivered, no panic/deadlock. Exploration.",
         "As C01. Data races between plain memory accesses are covered by the -race slice of the check only (happens-before based, schedule dependent); half of the race-slice runs use the workloads of sibling properties (C07, C08, C01, C02, C11, C10: Close / re-request cycles, snapshots, stopwatches), where only a race report counts."),
 "C10": ("6/C10", "deterministic simulation: Record/Start/Stop/Exec histories interleaved with report passes on a fake clock; synchronous-forwarding and elapsed-time oracle",
         "Seeded search over record histories on timers in several scopes (unique and extreme durations) interleaved with report passes, on plain, cached, plain+cached and reporter-less test scopes; every Record must produce exactly one delivery (through the cached handle whenever a cached reporter is configured) with its value, name and tags, made by the recording task before Record returns, passes deliver no timer values, stopwatches record the fake-clock time between Start and Stop - also when the wall clock is stepped back or forth in between (fault F12: a quarter of the programs step the wall clock by seconds to a day at seeded times while the monotonic clock runs on) -, an instrumented call runs once, returns its error, records one latency and bumps exactly one counter. Exploration.",
         "As C01; stopwatch bounds use the simulated clock read before/after Start and Stop. Inside a synctest bubble time.Now carries no monotonic reading; in programs with wall-clock steps the time shim synthesises one."),
 "C11": ("6/C11", "deterministic simulation: test-scope histories with quiescent and concurrent snapshots compared with a reference ledger",
         "Seeded search over record histories on a test scope and derived scopes with snapshots taken concurrently and at quiescence; a quiescent snapshot must equal the reference ledger exactly (keys, names, tags, counter sums, last gauge bits, timer values, every bucket incl. empty ones and duplicated bounds), a concurrent one must lie between completed and invoked increments, one full name + tag set held by two scopes (a dotted metric name next to a subscope) is one entry with the combined values, a snapshot must not change after later recording, mutating it must not affect the scope, closed test subscopes stay visible. Exploration; the snapshot contents are input-dominated, the simulator adds the concurrent snapshots and seeded map order.",
         "As C01. Known finding D20 (two metrics whose documented snapshot key is the same string because a tag value or key contains a delimiter share one snapshot entry) is recognised by its signature and reported as KNOWN-FINDING."),
 "C03": ("6/C03", "deterministic simulation: record/report histories with boundary-biased seeded specs and samples; tiling + per-bucket conservation oracle against a reference bucket model",
         "Seeded generation of bucket specifications (value/duration, unsorted, duplicated, negative, single, nil) and samples (each bound, one ulp / ns either side, extremes, +-Inf, NaN, wrong kind), scope default buckets whose slice the caller overwrites after construction, recorded concurrently with report passes on plain, cached and test scopes; the buckets handed to the reporter must tile the line and equal the reference tiling, every sample must be delivered in the one bucket the reference model names (NaN: at most one), per-bucket counts are conserved, nothing panics. Exploration; which bucket a sample belongs to is a pure function of the input (covered by generation only), the simulator contributes record||report histories, the two reporter paths and conservation.",
         "As C01; reference bucket model written from the statement (first upper bound >= sample)."),
 "C20": ("6/C20", "deterministic simulation: concurrent histogram creation with bucket sets built to collide in the shared bucket cache; per-histogram tiling oracle + caller-slice immutability",
         "Several tasks create histograms under one root at the same time with permutations of one set, sets with equal sums of bit patterns and value/duration sets of equal identity, some sharing one caller slice, some built one after the other in one scratch slice that the caller overwrites; each histogram must deliver exactly the tiling of the bounds it was created with, and BucketPairs / Histogram never modify the caller's slice. Exploration. The constructor clauses (recurrence, rejected arguments, Must* panics) are pure functions: they are checked by seeded, boundary-biased calls against the recurrence (plain input generation inside the same runs, no schedule involved, no coverage of the argument space claimed).",
         "As C03. Part of the budget (25 s quick, 240 s thorough) runs the same programs under a -race build: two creations that touch one piece of memory without synchronisation are reported as a data race (the serialised simulation cannot put two goroutines inside one sort)."),
 "C04": ("6/C04", "deterministic simulation: concurrent derivation programs (depth 0-6) with seeded strings, caller-map mutation while passes run; name/tag reference model + per-identity ledger at the reporter seam",
         "Seeded derivation programs (SubScope/Tagged chains, any prefix/separator/root tags, ASCII, multi-byte and invalid UTF-8 strings, with and without a sanitizer) run by concurrent tasks with all metric kinds at the leaves; every value recorded through a handle must be delivered under exactly the name and tag set the reference model derives, nothing under any other identity, caller maps are neither mutated nor retained (mutated by the harness afterwards), maps handed to the reporter never change. Exploration; the derivation is a function of the program (covered by generation), the simulator adds concurrent derivation, caller-map mutation during passes and seeded map order in the merge/key code.",
         "As C01; an empty subscope name under an empty prefix is accepted in both readings of the statement; when a sanitizer maps two keys of one Tagged map to the same key the run is skipped (precedence undefined)."),
 "C05": ("6/C05", "deterministic simulation: sets of derivations equal modulo order/grouping or differing in one component, 1-64 registry shards, delimiter and empty-key strings; pointer-identity + disjoint-ledger oracle; key function vs documented format",
         "Concurrent tasks derive the same identity through permuted and regrouped Tagged/SubScope chains, or an identity differing in one component, incl. pairs whose documented keys coincide because a component contains ',', '=' or '+', twins around an escape character (a component ending in a backslash or percent sign next to a real delimiter), and empty tag keys; equal identities must return the same scope and metric object, different identities never share one and their ledgers stay disjoint; the public key function must be deterministic under every (seeded) map order and follow the documented format. Exploration; input-dominated.",
         "As C04."),
 "C06": ("6/C06", "deterministic simulation: sanitizer called from concurrent tasks over a pooled-buffer shim (LIFO reuse, seeded GC drop) + monitor on every string at the reporter seam; rune-level reference model",
         "Seeded SanitizeOptions (arbitrary, empty, single-rune, multi-byte ranges, extra characters, any replacement rune) and strings up to 4 KiB biased to range end points +-1, multi-byte and invalid UTF-8; Name/Key/Value are called from several tasks at once while a scope workload pushes prefix, separator, subscope names, tags of every level and the cardinality metrics through the reporter seam; outputs must equal the reference model, contain only allowed or replacement runes, be idempotent and rune-count preserving, valid input unchanged. Exploration; the per-string function is pure (covered by generation), the simulator adds buffer-pool reuse across tasks and the whole-path monitor.",
         "As C01; the pool shim hands the most recently returned buffer to the next caller so that use-after-put is observable."),
 "C12": ("6/C12", "deterministic simulation: real M3 reporter + real thrift encoder over an in-memory UDP socket; every datagram measured and decoded, seeded batch compositions, packet sizes, protocols and producer interleavings",
         "Several producer tasks report seeded mixtures (incl. homogeneous bursts of tiny metrics and of histogram buckets, names up to 600 bytes, 0-8 tags, extreme values, 0-4 common tags, Compact and Binary, flushes at seeded positions, MaxPacketSizeBytes from a few metrics' worth up to 60000) through the real reporter, batching goroutine and codec into a simulated socket; every datagram with more than one metric handed to the socket must be <= MaxPacketSizeBytes - also the ones after an injected send failure (a quarter of the runs) -, the decoded multiset must equal what was reported (a failed datagram may be missing as a whole) and each producer's order is preserved. Exploration; batch composition is input-dominated, the simulator adds producer interleavings, queue pressure and flush timing.",
         "As C01; datagrams carrying a single metric are exempt (the statement assumes each metric fits on its own). The thrift codec runs real but un-instrumented."),
 "C13": ("6/C13", "deterministic simulation: Allocate/Report/Flush histories from concurrent tasks followed by Close against the real reporter; decoded-datagram multiset, tag, timestamp and barrier oracle; separate send-fault profile",
         "Every emitted datagram is decoded with the real codec and must be exactly one well-formed one-way emitMetricBatchV2 message carrying the configured common tags; every value reported before Close was called must appear exactly once with the name, kind, value and tags it was allocated with (bucket id / range tags for buckets, ids increasing with the bounds), timestamp between construction and the return of the call, everything emitted before Close returns, every destination receiving identical datagrams. Tag sets include pairs colliding in the reporter's tag-cache hash; values are reported immediately after construction. Under injected send errors a failed datagram may be missing as a whole, never altered or duplicated. Exploration.",
         "As C12."),
 "C14": ("6/C14", "deterministic simulation: producers, Flush and 1-3 Close callers racing on a tiny queue with send faults; panic/deadlock/leak oracle (+ race-detector slice)",
         "Seeded interleavings of Allocate/Report on shared handles, Flush and concurrent Close callers (plus calls after Close) with queue sizes 1-4 and destinations that fail or are closed mid-run; producers that keep reporting until Close has returned (they never pause); no task may panic (send on closed channel), every task completes (deadlock = no enabled task after bounded clock advances; livelock = under round-robin scheduling nothing visible happens and every runnable task only spins, or Close is still waiting after the reporter has sent more than can have been admitted before Close shut the gate), exactly one Close returns nil, nothing goes on the wire after Close returned, the reporter's goroutines have ended (from the instant Close returns they do nothing but release locks and return). Exploration.",
         "As C12. The data-race clause is covered only by the -race slice (happens-before based, schedule dependent); half of its runs use the C13 and C12 workloads."),
 "C15": ("6/C15", "deterministic simulation with fault sequences: Write/WriteByte/WriteString/Flush/Close sequences with oversize writes, send errors, closed sockets and abandoned messages against a byte-buffer reference model",
         "Seeded call sequences on the single and multi destination UDP transports with chunk sizes around the 65000 byte limit and faults at seeded positions (refused write, failing send, socket closed by the environment, writer abandoning a message after an error); each Flush must produce exactly one datagram with exactly the bytes accepted since the previous Flush and leave the buffer empty whether or not the send failed, refused writes send nothing, the next message arrives complete and alone, the multi transport fans out when no destination fails and, when one does (faults may be aimed at a single destination), never sends any destination anything but exactly one Flush's message; Close is idempotent, use after Close errors and sends nothing. A share of the runs (2% quick, 4% thorough) puts the real M3 reporter on the real transport, lets a run of consecutive sends fail while several packets' worth of samples are reported, and requires everything reported after the last failed send to be emitted (\"the M3 reporter keeps emitting later batches\"). fault_enumeration-style exploration of a sequential API; interleavings matter only in the reporter runs.",
         "The socket is a stub (errors are 'this send returns an error'). Known finding D9 (stale prefix after an abandoned message) is recognised by its signature and reported as KNOWN-FINDING."),
 "C17": ("6/C17", "deterministic simulation: record histories through a scope into the real Prometheus reporter and a private registry, Gather compared with a reference ledger; separate conflict profile with returning and panicking error callbacks",
         "Concurrent tasks record on counters, gauges, timers (summary and histogram flavour) and histograms with strictly increasing finite bounds (samples on the bounds) while report passes run; after the final pass Gather must show the ledger sum per counter, the last update per gauge, cumulative bucket counts equal to the number of samples <= each bound (durations in seconds) and the sample total, the number of recorded values per timer, one family per name with one series per tag-value set, every histogram exposed with exactly its own bounds (also when the caller reuses its bucket slice afterwards). Conflict profile: first uses reusing a name across kinds or with other tag keys, with callbacks given via Options and via Configuration.OnError that return, log or panic; whenever the callback returns the caller must hold a usable metric, and no panic may be a runtime error (nil dereference) or come from anywhere but the configured callback. Exploration; value agreement is input-dominated, the simulator adds concurrent first use, record||report and the callback/panic paths.",
         "As C01; prometheus client_golang runs real and un-instrumented; every run uses a private registry and, for the Configuration path, its own handler path on the process-wide mux."),
}

NOT_APPLICABLE = {
 "C16": "pure function of its input (encode/decode/size of a batch); no schedule, clock, fault or interleaving in the statement, so deterministic simulation has nothing to decide (DESIGN.md section 7)",
 "C18": "stateless adaptor, each call maps to one client call and a formatted name; pure function of arguments and options (DESIGN.md section 7)",
 "C19": "stateless fan-out loop over children, quantified over arguments and child counts only; no shared state for a schedule or fault to act on (DESIGN.md section 7)",
}

ALL = ["C%02d" % i for i in range(1, 21)]
PENDING_REASON = "check not built yet in this round (planned, see DESIGN.md section 6); not claimed until its check exists"

def main():
    hooks_commits = []
    checks = []
    for pid in ALL:
        if pid in CLAIMED:
            sec, tech, text, note = CLAIMED[pid]
            checks.append({
                "property_id": pid,
                "quick_cmd": "./check %s quick" % pid,
                "thorough_cmd": "./check %s thorough" % pid,
                "evidence_file": "evidence/%s.json" % pid,
                "replay_cmd_template": "./check %s --replay {path}" % pid,
                "engine": "tallysim",
                "level_claimed": {"category": "exploration", "text": text, "design_ref": "DESIGN.md section " + sec},
                "level_note": note,
                "technique": tech,
            })
    na = []
    for pid in ALL:
        if pid in CLAIMED:
            continue
        na.append({"property_id": pid, "reason": NOT_APPLICABLE.get(pid, PENDING_REASON)})
    m = {
        "version": 1,
        "setup_cmd": "./setup.sh",
        "hooks": {
            "guard": "verifsim",
            "enable": "no hand-written hooks: every check copies /repo's working tree to a scratch directory and instruments the copy mechanically (simgen: import swap to shim packages + rewrite of go/select/channel/map-range); the shipped tree is never built with instrumentation",
            "baseline_off_cmd": "cd /repo && go test -mod=mod -vet=off -count=1 ./...",
            "source_commits": hooks_commits,
            "add_only": True,
        },
        "engines": [{
            "name": "tallysim",
            "path": "sim/ simgen/ harness/ cmd/check/",
            "serves_properties": sorted(CLAIMED),
            "kind_free_text": "deterministic simulation with fault injection: seeded scheduler over testing/synctest bubbles (go1.26.8), modelled locks, seeded select / map order / maphash / pool, fake clock, in-memory UDP, recording reporters, reference-model oracles over the recorded history, choice-tape replay and shrinking",
        }],
        "checks": checks,
        "not_applicable": na,
        "notes": "Commands run from /verif. VERIF_SEED selects the base seed, VERIF_BUDGET_S the search budget, VERIF_WORKERS the number of worker processes (default 16). Exit 2 = infrastructure error (never a verdict). Genuine defects found and repaired are listed in known_findings.json as fixed entries.",
    }
    json.dump(m, open("MANIFEST.json", "w"), indent=1)
    print("MANIFEST.json: %d checks, %d not_applicable" % (len(checks), len(na)))

main()
