// Package simmaphash has the API of hash/maphash with a seed drawn from the
// simulation's decision source and a fixed hash function, so that the shard a
// key lands in is part of the recorded run.
package simmaphash

import (
	"verifsim/simrt"
)

// Seed is a hash seed.
type Seed struct{ s uint64 }

// MakeSeed draws a seed from the run's decisions (0 outside a run).
func MakeSeed() Seed {
	lo := uint64(simrt.Choose(1<<16, "maphash-seed"))
	return Seed{s: lo*0x9e3779b97f4a7c15 + 1}
}

// Hash is a seeded 64-bit hash (FNV-1a over the seed and the bytes, finalised).
type Hash struct {
	seed  Seed
	state uint64
	init  bool
}

func (h *Hash) ensure() {
	if !h.init {
		if h.seed.s == 0 {
			h.seed = MakeSeed()
		}
		h.state = 0xcbf29ce484222325 ^ h.seed.s
		h.init = true
	}
}

// SetSeed sets the seed and resets h.
func (h *Hash) SetSeed(seed Seed) {
	if seed.s == 0 {
		panic("maphash: use of uninitialized Seed")
	}
	h.seed = seed
	h.init = false
	h.ensure()
}

// Seed returns h's seed.
func (h *Hash) Seed() Seed { h.ensure(); return h.seed }

// Reset discards all bytes added to h.
func (h *Hash) Reset() { h.init = false; h.ensure() }

// WriteByte adds b.
func (h *Hash) WriteByte(b byte) error {
	h.ensure()
	h.state = (h.state ^ uint64(b)) * 0x100000001b3
	return nil
}

// Write adds b.
func (h *Hash) Write(b []byte) (int, error) {
	h.ensure()
	s := h.state
	for _, c := range b {
		s = (s ^ uint64(c)) * 0x100000001b3
	}
	h.state = s
	return len(b), nil
}

// WriteString adds s.
func (h *Hash) WriteString(str string) (int, error) {
	h.ensure()
	s := h.state
	for i := 0; i < len(str); i++ {
		s = (s ^ uint64(str[i])) * 0x100000001b3
	}
	h.state = s
	return len(str), nil
}

// Sum64 returns the current hash.
func (h *Hash) Sum64() uint64 {
	h.ensure()
	z := h.state
	z = (z ^ (z >> 30)) * 0xbf58476d1ce4e5b9
	z = (z ^ (z >> 27)) * 0x94d049bb133111eb
	return z ^ (z >> 31)
}

// Sum appends the hash to b.
func (h *Hash) Sum(b []byte) []byte {
	x := h.Sum64()
	return append(b, byte(x>>0), byte(x>>8), byte(x>>16), byte(x>>24), byte(x>>32), byte(x>>40), byte(x>>48), byte(x>>56))
}

// Size returns 8.
func (h *Hash) Size() int { return 8 }

// BlockSize returns the block size.
func (h *Hash) BlockSize() int { return 128 }

// Bytes hashes b with seed.
func Bytes(seed Seed, b []byte) uint64 {
	var h Hash
	h.SetSeed(seed)
	h.Write(b)
	return h.Sum64()
}

// String hashes s with seed.
func String(seed Seed, s string) uint64 {
	var h Hash
	h.SetSeed(seed)
	h.WriteString(s)
	return h.Sum64()
}
