package harness

import (
	"fmt"
	"sort"

	tally "github.com/uber-go/tally/v4"
)

func init() {
	register(&Property{
		ID:    "C05",
		Gen:   genC05,
		Check: checkC05,
		Interest: func(env *Env) bool {
			return env.Probes.Custom["equal_identity_pairs"] > 0 && env.Probes.Custom["different_identity_pairs"] > 0
		},
	})
}

type kv struct{ k, v string }

func genC05(g *Gen, tier string) *Program {
	p := &Program{Prop: "C05"}
	c := &p.Cfg
	baseCfg(g, c)
	c.Faults = FaultPlan{}
	c.CPUs = pick(g, 1, 1, 2, 3, 4, 8, 16, 64)
	wDelim, wOdd := 0, 2
	if g.Bool(25) {
		wDelim = 3
	}
	if g.Bool(40) {
		c.RootTags = map[string]string{pick(g, "env", "k"): genStr(g, 10, wDelim, wOdd)}
	}
	// the target identity
	var assign []kv
	keys := []string{"k", "a", "env", "z"}
	if g.Bool(10) {
		keys = append(keys, "")
	}
	if wDelim > 0 {
		keys = append(keys, "a=b", "k,a")
	}
	for i := g.Range(1, 4); i > 0; i-- {
		assign = append(assign, kv{keys[g.Intn(len(keys))], genStr(g, 10, wDelim, wOdd)})
	}
	prefix := []string{}
	for i := g.Intn(3); i > 0; i-- {
		prefix = append(prefix, genStr(g, 10, wDelim, 1))
	}
	nTasks := g.Range(2, 4)
	for t := 0; t < nTasks; t++ {
		as := append([]kv(nil), assign...)
		pre := append([]string(nil), prefix...)
		variant := g.Bool(35)
		if variant {
			switch g.Intn(4) {
			case 0:
				if len(as) > 0 {
					i := g.Intn(len(as))
					as[i].v = as[i].v + pick(g, "x", "", ",", "=")
				}
			case 1:
				as = append(as, kv{pick(g, "extra", "k", ""), genStr(g, 10, wDelim, wOdd)})
			case 2:
				pre = append(pre, genStr(g, 10, wDelim, 1))
			case 3:
				if len(as) > 1 {
					as = as[1:]
				}
			}
		}
		// The effective tag set is a map: a later assignment to the same key wins.
		// To keep "equal modulo order and grouping" meaningful, collapse duplicates
		// first (keep the last value per key), then permute and regroup freely.
		last := map[string]string{}
		var order []string
		for _, a := range as {
			if _, ok := last[a.k]; !ok {
				order = append(order, a.k)
			}
			last[a.k] = a.v
		}
		for i := len(order) - 1; i > 0; i-- {
			j := g.Intn(i + 1)
			order[i], order[j] = order[j], order[i]
		}
		var ops []Op
		cur, nextS := 0, 1
		// subscopes and tag groups may interleave: Tagged keeps the prefix
		steps := []string{}
		for range pre {
			steps = append(steps, "sub")
		}
		groups := [][]string{}
		for i := 0; i < len(order); {
			n := g.Range(1, len(order)-i)
			groups = append(groups, order[i:i+n])
			i += n
		}
		for range groups {
			steps = append(steps, "tag")
		}
		// random merge preserving relative order within each kind
		si, gi := 0, 0
		for si < len(pre) || gi < len(groups) {
			takeSub := si < len(pre) && (gi >= len(groups) || g.Bool(50))
			if takeSub {
				ops = append(ops, Op{K: "sub", S: cur, D: nextS, Name: pre[si]})
				si++
			} else {
				m := map[string]string{}
				for _, k := range groups[gi] {
					m[k] = last[k]
				}
				ops = append(ops, Op{K: "tag", S: cur, D: nextS, Tags: m})
				gi++
			}
			cur = nextS
			nextS++
		}
		if g.Bool(30) {
			// Tagged is idempotent: applying the same tags again changes nothing
			m := map[string]string{}
			for _, k := range order {
				m[k] = last[k]
			}
			ops = append(ops, Op{K: "tag", S: cur, D: nextS, Tags: m})
			cur = nextS
			nextS++
		}
		name := pick(g, "c", "c", "d")
		ops = append(ops, Op{K: "counter", S: cur, M: 1, Name: name}, Op{K: "inc", M: 1, I: int64(1 + t)},
			Op{K: "counter", S: cur, M: 2, Name: name}, Op{K: "inc", M: 2, I: 10})
		if g.Bool(40) {
			ops = append(ops, Op{K: "gauge", S: cur, M: 3, Name: "g"}, Op{K: "gauge", S: cur, M: 4, Name: "g"},
				Op{K: "timer", S: cur, M: 5, Name: "t"}, Op{K: "timer", S: cur, M: 6, Name: "t"},
				Op{K: "hist", S: cur, M: 7, Name: "h", B: specMenu[0]}, Op{K: "hist", S: cur, M: 8, Name: "h", B: specMenu[0]})
		}
		if g.Bool(40) {
			m := map[string]string{}
			for _, k := range order {
				m[k] = last[k]
			}
			ops = append(ops, Op{K: "keyfn", Name: pick(g, "", "p", "a+b"), Tags: m})
		}
		if g.Bool(25) {
			// the caller goes on using the maps it handed to Tagged (C04: they were
			// copied): what was recorded must still come out under the tags of the
			// time of the call
			for i, op := range ops {
				if op.K == "tag" && g.Bool(60) {
					ops = append(ops, Op{K: "mutmap", Ref: i})
				}
			}
		}
		p.Tasks = append(p.Tasks, ops)
	}
	if g.Bool(15) {
		// sets of different identities whose documented keys coincide because a
		// component contains one of the key format's delimiter characters; built
		// by re-parsing one key string at different delimiter positions
		type der struct {
			sub  string
			tags map[string]string
		}
		k1, v1 := pick(g, "a", "k", "zone"), pick(g, "1", "x", "")
		k2, v2 := pick(g, "b", "m", "zz"), pick(g, "2", "y")
		pfx := pick(g, "svc", "x", "")
		cands := []der{
			{sub: pfx, tags: map[string]string{k1: v1, k2: v2}},
			{sub: pfx, tags: map[string]string{k1: v1 + "," + k2 + "=" + v2}}, // ',' and '=' inside a value
			{sub: pfx, tags: map[string]string{k1 + "=" + v1 + "," + k2: v2}}, // inside a key
			{sub: "", tags: map[string]string{pfx + "+" + k1: v1, k2: v2}},    // prefix splitter inside a key
			{sub: pfx + "+" + k1 + "=" + v1 + "," + k2 + "=" + v2, tags: nil}, // everything inside the prefix
			{sub: pfx, tags: map[string]string{k1: v1}},                       // base for the next one
			{sub: pfx + "+" + k1 + "=" + v1, tags: nil},                       // pair inside the prefix ("p+k=v+")
			{sub: "", tags: map[string]string{pfx + "+" + k1: v1}},
			{sub: pfx, tags: map[string]string{k1 + "=": v1}},
			{sub: pfx, tags: map[string]string{k1: "=" + v1}},
		}
		// keep groups whose documented key coincides while the identity differs
		byDoc := map[string][]der{}
		for _, d := range cands {
			doc := documentedKey(d.sub, d.tags)
			byDoc[doc] = append(byDoc[doc], d)
		}
		docs := make([]string, 0, len(byDoc))
		for doc := range byDoc {
			docs = append(docs, doc)
		}
		sort.Strings(docs) // the generator must not depend on map iteration order
		var groups [][]der
		for _, doc := range docs {
			groups = append(groups, byDoc[doc])
		}
		for _, tw := range escapeTwins(g, pfx, k1, v1, k2, v2) {
			groups = append(groups, []der{{tw[0].sub, tw[0].tags}, {tw[1].sub, tw[1].tags}})
		}
		if g.Bool(50) {
			// try the twins first half of the time, the documented-key groups otherwise
			for i, j := 0, len(groups)-1; i < j; i, j = i+1, j-1 {
				groups[i], groups[j] = groups[j], groups[i]
			}
		}
		for _, group := range groups {
			if room := 7 - len(p.Tasks); len(group) > room {
				group = group[:max(room, 0)]
			}
			if len(group) < 2 {
				continue // a lone member of a group collides with nothing
			}
			for i, d := range group {
				var ops []Op
				cur := 0
				if d.sub != "" {
					ops = append(ops, Op{K: "sub", S: 0, D: 1, Name: d.sub})
					cur = 1
				}
				if d.tags != nil {
					ops = append(ops, Op{K: "tag", S: cur, D: 2, Tags: d.tags})
					cur = 2
				}
				ops = append(ops, Op{K: "counter", S: cur, M: 1, Name: "c"}, Op{K: "inc", M: 1, I: int64(100 + i)})
				p.Tasks = append(p.Tasks, ops)
			}
		}
	}
	settleEpilogue(g, p)
	return p
}

type keyfnResult struct {
	keys   []string
	noPref []string
}

func (te *taskEnv) execKeyFn(op *Op, rec *OpRec) {
	res := &keyfnResult{}
	m := copyTags(op.Tags)
	for i := 0; i < 3; i++ {
		res.keys = append(res.keys, tally.KeyForPrefixedStringMap(op.Name, m))
		res.noPref = append(res.noPref, tally.KeyForStringMap(m))
	}
	if fmt.Sprint(m) != fmt.Sprint(op.Tags) {
		rec.Err = "key function modified its argument"
	}
	rec.Extra = res
}

func checkC05(env *Env) []Violation {
	ops := env.OpsBeforeTeardown()
	var out []Violation
	out = append(out, opPanics(ops, nil)...)
	scopes := collectScopes(ops)
	coll := collidingIdentities(env, scopes)
	ci := newCloseInfo(env, ops)
	anyClose := ci.rootInv != inf || len(ci.inv) > 0
	rootM := env.Model.Root()
	all := append([]scopeIdent{{sv: env.main.scopes[0], id: idKey(rootM.Prefix, rootM.Tags), doc: documentedKey(rootM.Prefix, rootM.Tags)}}, scopes...)
	contaminated := false
	reported := map[string]bool{}
	for i := range all {
		for j := i + 1; j < len(all); j++ {
			a, b := all[i], all[j]
			if a.sv.model.HasAlt || b.sv.model.HasAlt || anyClose {
				continue
			}
			if a.id == b.id {
				env.Probes.inc("equal_identity_pairs")
				if a.sv.ptr != b.sv.ptr {
					k := "split|" + a.id
					if !reported[k] {
						reported[k] = true
						out = append(out, vf("identity-split", "two derivations ending in prefix %q tags %v returned different scopes", a.sv.model.Prefix, a.sv.model.Tags))
					}
					contaminated = true
				}
			} else {
				env.Probes.inc("different_identity_pairs")
				if a.sv.ptr == b.sv.ptr && !a.sv.isNoop {
					contaminated = true
					k := "merge|" + a.id + "|" + b.id
					if reported[k] {
						continue
					}
					reported[k] = true
					if coll[a.id] != "" && coll[a.id] == coll[b.id] {
						out = append(out, vf("key-collision", "scopes with different identities share one object because their keys are equal (delimiter character inside a component): prefix %q tags %v vs prefix %q tags %v, key %q", a.sv.model.Prefix, a.sv.model.Tags, b.sv.model.Prefix, b.sv.model.Tags, coll[a.id]))
					} else {
						out = append(out, vf("identity-merge", "derivations with different identities returned the same scope: prefix %q tags %v vs prefix %q tags %v", a.sv.model.Prefix, a.sv.model.Tags, b.sv.model.Prefix, b.sv.model.Tags))
					}
				}
			}
		}
	}
	// asking a scope twice for a metric returns the same metric
	type mk struct {
		scope uintptr
		kind  string
		name  string
	}
	metrics := map[mk]uintptr{}
	for _, r := range ops {
		mv, _ := r.Obj.(*metricVar)
		if mv == nil || r.Panic != "" || anyClose {
			continue
		}
		switch r.Op.K {
		case "counter", "gauge", "timer", "hist":
			k := mk{mv.scope.ptr, mv.kind, mv.name}
			if old, ok := metrics[k]; ok && old != mv.ptr {
				out = append(out, vf("metric-identity-split", "%s %q requested twice from the same scope returned different objects", mv.kind, mv.name))
			}
			metrics[k] = mv.ptr
		}
	}
	// key function
	for _, r := range ops {
		if r.Op.K != "keyfn" {
			continue
		}
		res, _ := r.Extra.(*keyfnResult)
		if res == nil {
			continue
		}
		env.Probes.inc("keyfn_calls")
		if r.Err != "" {
			out = append(out, vf("keyfn-mutates", "%s", r.Err))
		}
		want := documentedKey(r.Op.Name, r.Op.Tags)
		for _, k := range res.keys {
			if k != want {
				out = append(out, vf("keyfn", "KeyForPrefixedStringMap(%q, %v) = %q, documented format gives %q", r.Op.Name, r.Op.Tags, k, want))
				break
			}
		}
		want = documentedKey("", r.Op.Tags)
		for _, k := range res.noPref {
			if k != want {
				out = append(out, vf("keyfn", "KeyForStringMap(%v) = %q, documented format gives %q", r.Op.Tags, k, want))
				break
			}
		}
	}
	if contaminated {
		return out
	}
	if len(coll) > 0 {
		env.Probes.inc("delimiter_collision_pairs")
	}
	skip := map[string]bool{}
	for _, r := range ops {
		if mv, _ := r.Obj.(*metricVar); mv != nil && mv.AltName != "" && mv.AltName != mv.FullName {
			skip[idKey(mv.FullName, mv.Tags)] = true
			skip[idKey(mv.AltName, mv.Tags)] = true
		}
	}
	out = append(out, checkDeliveriesByIdentity(env, ops, skip)...)
	return out
}
