// Package simrt is the deterministic scheduler of the tally simulation.
//
// One run executes inside one testing/synctest bubble. The bubble's root
// goroutine is the scheduler; every other goroutine is a task. A task that
// reaches a synchronisation operation (through one of the shim packages
// simsync, simatomic, simuatomic, ... or through code rewritten by simgen)
// calls point(), which records what it is about to do and parks on its private
// resume channel. The scheduler resumes exactly one task at a time and then
// calls synctest.Wait, which returns once every goroutine of the bubble is
// durably blocked again. Which task is resumed, when the fake clock moves, in
// which order a select looks at its cases and a range visits a map are all
// decisions drawn from one Chooser (a seeded PRNG, or a recorded tape).
package simrt

import (
	"fmt"
	"runtime"
	"runtime/debug"
	"sync"
	"sync/atomic"
	"testing/synctest"
	"time"
	"unsafe"
)

// OpKind names the operation a parked task is about to perform.
type OpKind uint8

// Operation kinds.
const (
	OpStart     OpKind = iota // first instruction of a task
	OpAtomic                  // atomic load / store / read-modify-write
	OpLock                    // Mutex.Lock
	OpWLock1                  // RWMutex.Lock, phase 1: take the writer gate, announce
	OpWLock2                  // RWMutex.Lock, phase 2: wait for readers to drain
	OpRLock                   // RWMutex.RLock
	OpWGWait                  // WaitGroup.Wait
	OpOnce                    // Once.Do
	OpChan                    // before a channel send / receive / close
	OpWake                    // after having been blocked in the runtime
	OpSelect                  // before a select
	OpPool                    // sync.Pool Get / Put
	OpGosched                 // runtime.Gosched
	OpYield                   // explicit yield from the harness
	OpCond                    // Cond.Wait re-acquire
	OpNet                     // simulated socket operation
	OpQuiesce                 // wait until every other task is idle
	OpUnlock                  // about to release a lock (still holding it)
	OpChanClose               // before close(ch)
)

var opNames = [...]string{"start", "atomic", "lock", "wlock1", "wlock2", "rlock", "wgwait", "once", "chan", "wake", "select", "pool", "gosched", "yield", "cond", "net", "quiesce", "unlock", "close"}

func (k OpKind) String() string {
	if int(k) < len(opNames) {
		return opNames[k]
	}
	return fmt.Sprintf("op%d", int(k))
}

// Models of blocking primitives. The scheduler decides eligibility from these
// and never lets a task block on a real lock.

// StepsTotal counts the scheduler steps of all runs of this process; a worker's
// stall watchdog reads it to tell a run that is slow from one that is blocked
// outside the simulator's control.
var StepsTotal atomic.Int64

// WallStep is one step of the wall clock in a run's fault plan.
type WallStep struct{ At, Delta time.Duration }

// WallClock returns, for the current run, by how much the wall clock has been
// stepped so far, a monotonic reading (time since the run began, plus one
// second so that it is never zero), and whether the run has wall-clock steps
// at all.
//
//go:norace
func WallClock() (skew, mono time.Duration, on bool) {
	s := cur
	if s == nil || len(s.Cfg.WallSteps) == 0 {
		return 0, 0, false
	}
	el := time.Since(s.start)
	for _, w := range s.Cfg.WallSteps {
		if w.At <= el {
			skew += w.Delta
		}
	}
	return skew, el + time.Second, true
}

// MutexModel is the scheduler's view of a Mutex.
type MutexModel struct{ Held bool }

// RWModel is the scheduler's view of a RWMutex (Go's writer-preferring protocol).
type RWModel struct {
	Writer  bool // a writer holds the lock
	Pending bool // a writer took the gate and announced itself; new readers wait
	Readers int
}

// WGModel is the scheduler's view of a WaitGroup.
type WGModel struct {
	N       int
	Waiters int // tasks parked in (or not yet returned from) Wait
}

// OnceModel is the scheduler's view of a Once: 0 idle, 1 running, 2 done.
type OnceModel struct{ State int }

// CondModel is the scheduler's view of one Cond waiter.
type CondModel struct{ Signalled bool }

const (
	stParked  = 1
	stRunning = 2
	stDone    = 3
)

// Task is one goroutine under the scheduler's control.
type Task struct {
	ID     int
	Name   string
	Parent int  // spawning task, -1 for main
	Lib    bool // spawned by a rewritten go statement (library goroutine)
	Site   string

	g       uintptr
	resume  chan struct{}
	state   int
	reqKind OpKind
	reqObj  uintptr
	reqMu   *MutexModel
	reqRW   *RWModel
	reqWG   *WGModel
	reqOnce *OnceModel
	reqCond *CondModel
	killed  bool
	exiting bool
	epoch   int      // fair continuation: the quiet period (Sim.epoch) in which base was taken
	base    int      // Steps at the first step the task took in that quiet period
	yields  int      // Gosched / yield operations since then
	watch   bool     // WatchEpilogue: record the kinds of the operations from now on
	after   []OpKind // the operation the task was at when the watch began, and those after it
	prio    int
	Steps   int

	PanicVal   interface{}
	PanicStack string
}

// Done reports whether the task has finished.
func (t *Task) Done() bool { return t.state == stDone }

// Strategy selects how the next task is chosen.
type Strategy int

// Scheduling strategies.
const (
	StratRandom Strategy = iota
	StratSticky
	StratPCT
	StratContention
	StratRunToCompletion
	NumStrategies
)

func (s Strategy) String() string {
	return [...]string{"random", "sticky", "pct", "contention", "rtc"}[s]
}

// Config configures one run.
type Config struct {
	Strategy    Strategy
	PStay       int             // sticky: percent chance to stay with the current task
	PContention int             // contention: percent chance to follow the last object
	PCTDepth    int             // PCT: number of priority levels changes + 1
	PCTHorizon  int             // PCT: change points are drawn from [0, horizon)
	PAdvance    int             // per-mille chance to advance the clock although tasks are enabled
	Quanta      []time.Duration // clock advance menu
	MaxSteps    int             // soft cap; afterwards fair scheduling without clock preemption
	// WallSteps are steps of the wall clock (not of the monotonic clock): from
	// simulated time At on, simtime.Now reports a wall reading moved by Delta.
	WallSteps []WallStep
	// Progress, if set, returns a number that grows whenever the run does
	// something the outside can see (an operation of the workload returns, the
	// code under test calls a reporter or sends a datagram). Under the fair
	// continuation a run is a livelock only when this stops growing.
	Progress func() int
	// Starved, if set, is asked now and then during the fair continuation whether
	// some call is being kept from returning by work that keeps arriving (which
	// looks like progress); a non-empty answer ends the run as a livelock.
	Starved      func() string
	MaxIdleAdv   int  // consecutive fruitless clock advances before declaring deadlock
	VirtualCPUs  int  // what simruntime.GOMAXPROCS reports
	Trace        bool // keep a step trace
	PoolDropPct  int  // simsync.Pool: percent chance that Get ignores a pooled object
	PStall       int  // per-mille chance, at a scheduling decision, that the running task is stalled for a long stretch
	MaxTraceLen  int
	DrainSteps   int
	KillOnFinish bool
}

// TraceEntry is one scheduler step.
type TraceEntry struct {
	Step int
	Task int
	Kind OpKind
	Obj  int // dense object id, 0 = none
	Now  time.Duration
	Note string
}

// Stats are per-run counters.
type Stats struct {
	Steps         int
	Preemptions   int // switched away from a task that could have continued
	Switches      int
	ContentionHit int // switched to a task about to touch the object just touched
	ClockAdvances int
	ClockPreempt  int // clock advanced although tasks were enabled
	SelectMulti   int // selects that found >= 2 ready cases
	MapRanges     int
	MapPermuted   int // map ranges visited in a non-sorted order
	// AmbiguousRanges counts map ranges over keys without a natural order (pointers,
	// interfaces) in which two keys could not be told apart by their contents:
	// their relative order is the runtime's and does not replay.
	AmbiguousRanges int
	PoolDrops       int
	Adopted         int
	Leaked          int // tasks still blocked in the runtime when the run ended
	Killed          int
	Tasks           int
	LibTasks        int
	SimTime         time.Duration
	Truncated       bool
	SoloSkips       int // scheduling points passed without parking because only one task was alive
	Stalls          int // long preemptions: a task held back for many steps at the point where it stood
}

// Sim is one simulated run.
type Sim struct {
	Cfg   Config
	Ch    *Chooser
	Stats Stats
	Trace []TraceEntry

	mu     sync.Mutex // guards slots
	slots  [maxTasks]slot
	nslots int
	tasks  []*Task

	schedG    uintptr
	step      int
	last      *Task
	lastObj   uintptr
	objIDs    map[uintptr]int
	start     time.Time
	pctNext   int
	pctChg    []int
	sig       uint64
	fair      bool
	rr        int
	elig      []*Task
	live      int
	decisions int
	quiescing bool
	finished  bool
	births    []birth
	closedCh  []uintptr // channels closed through ChanClose (probe only)
	nborn     uint64
	stalled   *Task // long preemption in progress: this task is not chosen while others can run
	stallEnd  int

	// Deadlock is set when no task could make progress.
	Deadlock string
	// Livelock is set when, under fair scheduling, the run stopped making
	// progress (or Cfg.Starved said so) for a whole step budget.
	Livelock string
	// Inconclusive is set when the run was cut off at the hard cap while still
	// making progress: no verdict can be drawn from it.
	Inconclusive string
	fairDec      int // decisions taken under the fair continuation
	fairRng      uint64
	fairStep0    int // s.step when the fair continuation began
	progVal      int // last value of progress()
	progDec      int // fairDec when it last changed
	epoch        int // quiet period of the fair continuation (a new one after every sign of life)
	progStep     int // s.step when it last changed
	ended        int // tasks that have ended (part of progress)
	work         int // operations other than those of a spinning goroutine
	workVal      int // s.work when it was last seen to change
	workStep     int // s.step then
	// Panics of tasks that were not recovered by the task's own code.
	Panics []*Task
}

const maxTasks = 256

type slot struct {
	g uintptr
	t *Task
}

// AppendNR appends without calling into the (race-instrumented) runtime
// growslice / memmove helpers; bookkeeping shared between tasks uses it so that
// the race detector only ever sees the accesses of the code under test.
//
//go:norace
func AppendNR[T any](s []T, v T) []T {
	if len(s) == cap(s) {
		n := make([]T, len(s), 2*cap(s)+16)
		for i := range s {
			n[i] = s[i]
		}
		s = n
	}
	s = s[:len(s)+1]
	s[len(s)-1] = v
	return s
}

// cur is the active simulation; nil means pass-through (shims behave like the
// primitives they wrap).
var cur *Sim

// Active returns the running simulation or nil.
//
//go:norace
func Active() *Sim { return cur }

// New prepares a run.
func New(cfg Config, ch *Chooser) *Sim {
	if cfg.MaxSteps == 0 {
		cfg.MaxSteps = 20000
	}
	if cfg.MaxIdleAdv == 0 {
		cfg.MaxIdleAdv = 64
	}
	if len(cfg.Quanta) == 0 {
		cfg.Quanta = []time.Duration{time.Millisecond, 100 * time.Millisecond, time.Second}
	}
	if cfg.VirtualCPUs == 0 {
		cfg.VirtualCPUs = 1
	}
	if cfg.MaxTraceLen == 0 {
		cfg.MaxTraceLen = 4000
	}
	if cfg.DrainSteps == 0 {
		cfg.DrainSteps = 2000
	}
	return &Sim{Cfg: cfg, Ch: ch, objIDs: make(map[uintptr]int), tasks: make([]*Task, 0, 64), Panics: make([]*Task, 0, 4)}
}

// Step returns the number of scheduler steps taken so far; it is the global
// event clock used to stamp histories.
//
//go:norace
func (s *Sim) Step() int { return s.step }

// Elapsed returns the simulated time since the start of the run.
func (s *Sim) Elapsed() time.Duration { return time.Since(s.start) }

// StartTime returns the (fake) wall clock at the start of the run.
func (s *Sim) StartTime() time.Time { return s.start }

// Signature identifies the sequence of preemptive context switches of the run.
func (s *Sim) Signature() uint64 { return s.sig }

// Tasks returns all tasks created so far.
func (s *Sim) Tasks() []*Task { return s.tasks }

// LiveLibTasks returns the library tasks (spawned by rewritten go statements,
// directly or indirectly by task root) that have not finished.
//
//go:norace
func (s *Sim) LiveLibTasks() []*Task {
	var out []*Task
	for _, t := range s.tasks {
		if t.Lib && t.state != stDone {
			out = append(out, t)
		}
	}
	return out
}

// WatchEpilogue starts recording what the given tasks do from now on: the kind
// of the operation each is parked at (or blocked in) and of every operation it
// goes on to perform. The harness calls it at the instant a Close returns, for
// the goroutines that are still alive then.
//
//go:norace
func (s *Sim) WatchEpilogue(ts []*Task) []int {
	from := make([]int, len(ts))
	for i, t := range ts {
		if !t.watch {
			t.watch = true
			t.after = AppendNR(t.after, t.reqKind)
		}
		// the last entry is the operation the task is parked at or blocked in now
		from[i] = len(t.after) - 1
	}
	return from
}

// Epilogue returns what was recorded for the task from the given WatchEpilogue
// call on and whether the task ended by itself (returned from its function;
// was not torn down at the end of the run).
func (t *Task) Epilogue(from int) ([]OpKind, bool) {
	return t.after[from:], t.state == stDone && !t.killed
}

// OnlyReleases reports whether every operation in ops is one a goroutine that
// has finished its work performs on its way out: releasing locks, atomics,
// returning pooled objects, closing a channel. Anything that can wait for
// another goroutine or that the outside can see (lock, channel send/receive,
// select, WaitGroup.Wait, Once, socket) is not.
func OnlyReleases(ops []OpKind) bool {
	for _, k := range ops {
		switch k {
		case OpStart, OpAtomic, OpUnlock, OpPool, OpGosched, OpChanClose:
		default:
			return false
		}
	}
	return true
}

// LiveLibDescendants returns the library tasks that are not done and that are
// one of the tasks in roots or were started, directly or through other tasks,
// by one of them.
func (s *Sim) LiveLibDescendants(roots map[int]bool) []*Task {
	var out []*Task
	for _, t := range s.tasks {
		if !t.Lib || t.state == stDone {
			continue
		}
		for a := t; a != nil; {
			if roots[a.ID] {
				out = append(out, t)
				break
			}
			if a.Parent < 0 || a.Parent >= len(s.tasks) {
				break
			}
			a = s.tasks[a.Parent]
		}
	}
	return out
}

//go:norace
func (s *Sim) lookup(g uintptr) *Task {
	raceDisable()
	s.mu.Lock()
	var t *Task
	for i := 0; i < s.nslots; i++ {
		if s.slots[i].g == g {
			t = s.slots[i].t
			break
		}
	}
	s.mu.Unlock()
	raceEnable()
	return t
}

//go:norace
func (s *Sim) register(t *Task) {
	raceDisable()
	s.mu.Lock()
	placed := false
	for i := 0; i < s.nslots; i++ {
		if s.slots[i].g == 0 {
			s.slots[i] = slot{t.g, t}
			placed = true
			break
		}
	}
	if !placed {
		if s.nslots == maxTasks {
			s.mu.Unlock()
			raceEnable()
			panic("simrt: too many tasks")
		}
		s.slots[s.nslots] = slot{t.g, t}
		s.nslots++
	}
	s.mu.Unlock()
	raceEnable()
}

//go:norace
func (s *Sim) unregister(t *Task) {
	raceDisable()
	s.mu.Lock()
	for i := 0; i < s.nslots; i++ {
		if s.slots[i].t == t {
			s.slots[i] = slot{}
			break
		}
	}
	s.mu.Unlock()
	raceEnable()
}

// Self returns the calling task (nil on the scheduler goroutine or outside a run).
//
//go:norace
func Self() *Task {
	s := cur
	if s == nil {
		return nil
	}
	g := getg()
	if g == s.schedG {
		return nil
	}
	return s.lookup(g)
}

// SelfID returns the calling task's id, or -1.
//
//go:norace
func SelfID() int {
	if t := Self(); t != nil {
		return t.ID
	}
	return -1
}

//go:norace
func (s *Sim) newTask(name string, parent int, lib bool, site string) *Task {
	t := &Task{ID: len(s.tasks), Name: name, Parent: parent, Lib: lib, Site: site, resume: make(chan struct{})}
	t.state = stRunning
	s.tasks = AppendNR(s.tasks, t)
	s.Stats.Tasks++
	if lib {
		s.Stats.LibTasks++
	}
	// PCT priority: drawn at creation; higher runs first.
	if s.Cfg.Strategy == StratPCT {
		t.prio = 1000 + s.Ch.Choose(1000, "pct-prio")
	}
	return t
}

// spawn starts fn as a new task. It is called by the task that executes the
// (rewritten) go statement, or by the scheduler for the main task.
//
//go:norace
func (s *Sim) spawn(name string, lib bool, site string, fn func()) *Task {
	parent := -1
	if p := s.lookup(getg()); p != nil {
		parent = p.ID
		if p.Lib {
			lib = true
		}
	}
	t := s.newTask(name, parent, lib, site)
	s.live++
	ready := make(chan struct{})
	go s.runTask(t, fn, ready)
	// Wait until the child is registered and parked-to-be, so that the task
	// table is never written while the spawner runs on.
	raceDisable()
	<-ready
	raceEnable()
	return t
}

//go:norace
func (s *Sim) runTask(t *Task, fn func(), ready chan struct{}) {
	t.g = getg()
	s.register(t)
	defer s.taskExit(t)
	t.reqKind = OpStart
	t.reqObj = 0
	t.state = stParked
	raceDisable()
	ready <- struct{}{}
	<-t.resume
	raceEnable()
	if t.killed {
		t.exiting = true
		runtime.Goexit()
	}
	fn()
}

// taskExit is the deferred epilogue of every task.
//
//go:norace
func (s *Sim) taskExit(t *Task) {
	if r := recover(); r != nil {
		t.PanicVal = r
		t.PanicStack = string(debug.Stack())
		s.Panics = AppendNR(s.Panics, t)
	}
	s.unregister(t)
	s.live--
	s.ended++
	t.state = stDone
}

// Go is what a rewritten `go f()` statement calls.
//
//go:norace
func Go(site string, fn func()) {
	s := cur
	if s == nil || getg() == s.schedG {
		go fn()
		return
	}
	s.spawn(site, true, site, fn)
}

// RunCallback runs fn, on the calling goroutine, as a library task: for
// goroutines that the runtime starts on behalf of the code under test (timer
// callbacks). It parks before fn's first instruction like any new task.
//
//go:norace
func RunCallback(site string, fn func()) {
	s := cur
	if s == nil || s.finished {
		fn()
		return
	}
	raceDisable()
	s.mu.Lock()
	t := &Task{ID: len(s.tasks), Name: site, Parent: -1, Lib: true, Site: site, resume: make(chan struct{}), g: getg(), state: stRunning}
	s.tasks = AppendNR(s.tasks, t)
	s.Stats.Tasks++
	s.Stats.LibTasks++
	s.live++
	s.mu.Unlock()
	raceEnable()
	s.register(t)
	defer s.taskExit(t)
	t.reqKind, t.reqObj = OpStart, 0
	t.state = stParked
	raceDisable()
	<-t.resume
	raceEnable()
	if t.killed {
		t.exiting = true
		runtime.Goexit()
	}
	fn()
}

// GoTask starts a harness task (not a library goroutine).
//
//go:norace
func GoTask(name string, fn func()) *Task {
	s := cur
	if s == nil {
		panic("simrt.GoTask outside a run")
	}
	return s.spawn(name, false, "", fn)
}

// park is the heart of every shim: announce the next operation and wait to be
// chosen.
//
//go:norace
func (s *Sim) park(kind OpKind, obj uintptr, mu *MutexModel, rw *RWModel, wg *WGModel, once *OnceModel, cond *CondModel) {
	g := getg()
	if g == s.schedG {
		return
	}
	t := s.lookup(g)
	if t == nil {
		t = s.adopt(g)
	}
	if t.exiting {
		return
	}
	if t.watch && len(t.after) < 256 {
		t.after = AppendNR(t.after, kind)
	}
	switch kind {
	case OpGosched, OpYield, OpQuiesce:
		t.yields++ // the mark of a loop that waits for somebody else
	case OpAtomic, OpChan, OpSelect:
		// what a goroutine does while it spins; a channel operation or select
		// that gets through counts itself (chan.go)
	default:
		s.work++
	}
	if s.live <= 1 && kind != OpQuiesce && kind != OpWake && mu == nil && rw == nil && wg == nil && once == nil && cond == nil {
		// the only live task: there is no scheduling decision to make here.
		// (Not for OpWake: a goroutine woken by the runtime runs while the task that
		// woke it is still running - it may be on its way out - so the number of
		// live tasks is not a stable thing to look at from here.)
		s.Stats.SoloSkips++
		return
	}
	t.reqKind, t.reqObj = kind, obj
	t.reqMu, t.reqRW, t.reqWG, t.reqOnce, t.reqCond = mu, rw, wg, once, cond
	t.state = stParked
	raceDisable()
	<-t.resume
	raceEnable()
	if t.killed {
		t.exiting = true
		runtime.Goexit()
	}
}

//go:norace
func (s *Sim) adopt(g uintptr) *Task {
	// A goroutine the scheduler did not start (timer callback, goroutine of an
	// un-instrumented dependency) entered a shim. Make it a task.
	raceDisable()
	s.mu.Lock()
	t := &Task{ID: len(s.tasks), Name: "adopted", Parent: -1, Lib: true, resume: make(chan struct{}), g: g, state: stRunning}
	s.tasks = AppendNR(s.tasks, t)
	s.Stats.Adopted++
	s.mu.Unlock()
	raceEnable()
	s.register(t)
	return t
}

// Exiting reports whether the calling task is being torn down: it was killed at
// the end of a run and is running its deferred functions on the way out. The
// lock shims then do nothing at all - the run is over, and a deferred Lock on a
// real mutex that some other killed task still holds would block the goroutine
// for real (not durably, in synctest's terms) and hang the bubble.
//
//go:norace
func Exiting() bool {
	s := cur
	if s == nil || !s.finished {
		return false
	}
	g := getg()
	if g == s.schedG {
		return false
	}
	t := s.lookup(g)
	return t != nil && t.exiting
}

// Point parks the calling task before an operation of the given kind on obj.
// Outside a run it does nothing.
//
//go:norace
func Point(kind OpKind, obj unsafe.Pointer) {
	if s := cur; s != nil {
		s.park(kind, uintptr(obj), nil, nil, nil, nil, nil)
	}
}

// Yield is an explicit scheduling point for harness code.
//
//go:norace
func Yield() { Point(OpYield, nil) }

// AcquireMutex parks until the modelled mutex is free and takes it.
//
//go:norace
func AcquireMutex(m *MutexModel, obj unsafe.Pointer) {
	s := cur
	if s == nil || getg() == s.schedG {
		return
	}
	s.park(OpLock, uintptr(obj), m, nil, nil, nil, nil)
}

// TryAcquireMutex is a scheduling point followed by a non-blocking attempt.
//
//go:norace
func TryAcquireMutex(m *MutexModel, obj unsafe.Pointer) bool {
	s := cur
	if s == nil || getg() == s.schedG {
		return true
	}
	s.park(OpAtomic, uintptr(obj), nil, nil, nil, nil, nil)
	if m.Held {
		return false
	}
	m.Held = true
	return true
}

// InTask reports whether the caller is a task of a running simulation.
//
//go:norace
func InTask() bool {
	s := cur
	return s != nil && getg() != s.schedG
}

// ReleaseMutex releases the modelled mutex. Not a scheduling point. It returns
// false if the mutex was not held.
//
//go:norace
func ReleaseMutex(m *MutexModel) bool {
	s := cur
	if s == nil || getg() == s.schedG {
		return true
	}
	if !m.Held {
		return false
	}
	m.Held = false
	return true
}

// AcquireWrite takes the modelled RWMutex for writing, in two phases.
//
//go:norace
func AcquireWrite(m *RWModel, obj unsafe.Pointer) {
	s := cur
	if s == nil || getg() == s.schedG {
		return
	}
	s.park(OpWLock1, uintptr(obj), nil, m, nil, nil, nil)
	if m.Writer {
		return // granted in one step (no readers were active)
	}
	s.park(OpWLock2, uintptr(obj), nil, m, nil, nil, nil)
}

// ReleaseWrite releases the write lock.
//
//go:norace
func ReleaseWrite(m *RWModel) bool {
	s := cur
	if s == nil || getg() == s.schedG {
		return true
	}
	if !m.Writer {
		return false
	}
	m.Writer = false
	m.Pending = false
	return true
}

// AcquireRead takes the modelled RWMutex for reading.
//
//go:norace
func AcquireRead(m *RWModel, obj unsafe.Pointer) {
	s := cur
	if s == nil || getg() == s.schedG {
		return
	}
	s.park(OpRLock, uintptr(obj), nil, m, nil, nil, nil)
}

// ReleaseRead releases a read lock.
//
//go:norace
func ReleaseRead(m *RWModel) bool {
	s := cur
	if s == nil || getg() == s.schedG {
		return true
	}
	if m.Readers <= 0 {
		return false
	}
	m.Readers--
	return true
}

// TryAcquireWrite / TryAcquireRead: scheduling point + non-blocking attempt.
//
//go:norace
func TryAcquireWrite(m *RWModel, obj unsafe.Pointer) bool {
	s := cur
	if s == nil || getg() == s.schedG {
		return true
	}
	s.park(OpAtomic, uintptr(obj), nil, nil, nil, nil, nil)
	if m.Writer || m.Pending || m.Readers > 0 {
		return false
	}
	m.Writer, m.Pending = true, true
	return true
}

//go:norace
func TryAcquireRead(m *RWModel, obj unsafe.Pointer) bool {
	s := cur
	if s == nil || getg() == s.schedG {
		return true
	}
	s.park(OpAtomic, uintptr(obj), nil, nil, nil, nil, nil)
	if m.Writer || m.Pending {
		return false
	}
	m.Readers++
	return true
}

// WGAdd adjusts the modelled counter. Not a scheduling point.
//
//go:norace
func WGAdd(m *WGModel, n int) {
	s := cur
	if s == nil || getg() == s.schedG {
		return
	}
	if n > 0 && m.N == 0 && m.Waiters > 0 {
		// sync.WaitGroup's contract: a positive Add that starts from zero must
		// happen before Wait, not while a previous Wait has not returned yet. The
		// real implementation detects this only sometimes; the model always does.
		panic("sync: WaitGroup misuse: Add called concurrently with Wait")
	}
	m.N += n
}

// WGWait parks until the modelled counter is zero.
//
//go:norace
func WGWait(m *WGModel, obj unsafe.Pointer) {
	s := cur
	if s == nil || getg() == s.schedG {
		return
	}
	m.Waiters++
	s.park(OpWGWait, uintptr(obj), nil, nil, m, nil, nil)
	m.Waiters--
}

// OnceEnter parks until the Once is idle or done; it returns true if the
// caller must run the function (and then call OnceLeave).
//
//go:norace
func OnceEnter(m *OnceModel, obj unsafe.Pointer) bool {
	s := cur
	if s == nil || getg() == s.schedG {
		if m.State == 2 {
			return false
		}
		m.State = 1
		return true
	}
	s.park(OpOnce, uintptr(obj), nil, nil, nil, m, nil)
	// the scheduler set State=1 if we are the runner
	t := s.lookup(getg())
	if t != nil && t.reqOnce == nil {
		return true // scheduler cleared reqOnce to signal "you run it"
	}
	return false
}

// OnceLeave marks the Once done.
//
//go:norace
func OnceLeave(m *OnceModel) { m.State = 2 }

// CondWait parks until the waiter has been signalled.
//
//go:norace
func CondWait(m *CondModel, obj unsafe.Pointer) {
	s := cur
	if s == nil || getg() == s.schedG {
		return
	}
	s.park(OpCond, uintptr(obj), nil, nil, nil, nil, m)
}

// Sleep sleeps on the fake clock and parks again when woken.
//
//go:norace
func Sleep(d time.Duration) {
	s := cur
	if s == nil || getg() == s.schedG {
		time.Sleep(d)
		return
	}
	time.Sleep(d)
	s.park(OpWake, 0, nil, nil, nil, nil, nil)
}

// Gosched is runtime.Gosched under the scheduler: a scheduling point that also
// tells the strategy that the caller is spinning.
//
//go:norace
func Gosched() {
	s := cur
	if s == nil || getg() == s.schedG {
		runtime.Gosched()
		return
	}
	s.park(OpGosched, 0, nil, nil, nil, nil, nil)
}

// NoteMapRange counts a rewritten map range.
//
//go:norace
func (s *Sim) NoteMapRange(permuted bool) {
	s.Stats.MapRanges++
	if permuted {
		s.Stats.MapPermuted++
	}
}

// VirtualCPUs is what simruntime.GOMAXPROCS reports during a run.
//
//go:norace
func VirtualCPUs() int {
	if s := cur; s != nil {
		return s.Cfg.VirtualCPUs
	}
	return runtime.GOMAXPROCS(-1)
}

//go:norace
func (s *Sim) eligible(t *Task) bool {
	if t.state != stParked {
		return false
	}
	switch t.reqKind {
	case OpLock:
		return !t.reqMu.Held
	case OpWLock1:
		return !t.reqRW.Pending && !t.reqRW.Writer
	case OpWLock2:
		return t.reqRW.Readers == 0
	case OpRLock:
		return !t.reqRW.Pending && !t.reqRW.Writer
	case OpWGWait:
		return t.reqWG.N <= 0
	case OpOnce:
		return t.reqOnce.State != 1
	case OpCond:
		return t.reqCond.Signalled
	}
	return true
}

// grant applies the effect of the chosen task's pending operation to the model.
//
//go:norace
func (s *Sim) grant(t *Task) {
	switch t.reqKind {
	case OpLock:
		t.reqMu.Held = true
	case OpWLock1:
		t.reqRW.Pending = true
		if t.reqRW.Readers == 0 {
			t.reqRW.Writer = true
		}
	case OpWLock2:
		t.reqRW.Writer = true
	case OpRLock:
		t.reqRW.Readers++
	case OpOnce:
		if t.reqOnce.State == 0 {
			t.reqOnce.State = 1
			t.reqOnce = nil // tells OnceEnter that this task runs the function
		}
	}
}

func (s *Sim) objID(p uintptr) int {
	if p == 0 {
		return 0
	}
	id, ok := s.objIDs[p]
	if !ok {
		id = len(s.objIDs) + 1
		s.objIDs[p] = id
	}
	return id
}

type birth struct {
	addr uintptr
	n    uint64
}

// Born records the creation of an object (simgen wraps every &T{...} of the code
// under test in it). Map ranges over pointer keys visit such objects in an order
// derived from their birth, not from their address.
//
//go:norace
func Born[T any](p *T) *T {
	if s := simTask(); s != nil {
		s.nborn++
		s.births = AppendNR(s.births, birth{uintptr(unsafe.Pointer(p)), s.nborn})
	}
	return p
}

// birthOf returns the birth number of the object at p (the latest one: an
// address can be reused after a collection), or 0.
//
//go:norace
func (s *Sim) birthOf(p uintptr) uint64 {
	for i := len(s.births) - 1; i >= 0; i-- {
		if s.births[i].addr == p {
			return s.births[i].n
		}
	}
	return 0
}

func mix(h, v uint64) uint64 {
	h ^= v + 0x9e3779b97f4a7c15 + (h << 6) + (h >> 2)
	return h
}

// Run executes main as task 0 and schedules until it returns (or the run is
// stuck). It must be called from the root goroutine of a synctest bubble.
func (s *Sim) Run(main func()) {
	s.schedG = getg()
	s.start = time.Now()
	if s.Cfg.Strategy == StratPCT {
		d := s.Cfg.PCTDepth
		if d < 1 {
			d = 1
		}
		h := s.Cfg.PCTHorizon
		if h < 1 {
			h = 200
		}
		for i := 0; i < d-1; i++ {
			s.pctChg = append(s.pctChg, s.Ch.Choose(h, "pct-chg"))
		}
	}
	epoch++
	cur = s
	defer func() { cur = nil }()

	mainTask := s.spawn("main", false, "", main)
	idle := 0
	for {
		synctest.Wait()
		if len(s.Panics) > 0 {
			break
		}
		if mainTask.state == stDone {
			break
		}
		s.collect()
		if len(s.elig) == 0 {
			if idle >= s.Cfg.MaxIdleAdv {
				s.Deadlock = s.describeStuck()
				break
			}
			idle++
			s.advance(false)
			continue
		}
		idle = 0
		// The step budget counts scheduling decisions (steps at which more than one
		// task could run); forced moves are bounded separately by a hard cap.
		if len(s.elig) > 1 {
			s.decisions++
		}
		if (s.decisions >= s.Cfg.MaxSteps || s.step >= 30*s.Cfg.MaxSteps) && !s.fair {
			s.fair = true
			s.Stats.Truncated = true
			s.fairStep0, s.progStep, s.workStep, s.progVal, s.workVal = s.step, s.step, s.step, s.progress(), s.work
			s.epoch++ // every task's count of own steps starts afresh
		}
		if s.fair && s.fairVerdict(len(s.elig) > 1) {
			break
		}
		n := s.pick()
		if n < 0 {
			s.advance(true)
			continue
		}
		s.runStep(s.elig[n])
	}
	s.finish(mainTask)
}

// progress is what the outside can see: events of the harness's history (an
// operation of the workload returns, a reporter call, a datagram) and tasks
// that have ended.
//
//go:norace
func (s *Sim) progress() int {
	n := s.ended
	if s.Cfg.Progress != nil {
		n += s.Cfg.Progress()
	}
	return n
}

// fairVerdict is called before every step of the fair continuation and decides
// whether the run ends here. Round-robin scheduling gives every runnable task
// its turn, so whatever the run still has to do gets done if it is finite; the
// question is how long to wait for it. Two clocks:
//
//   - since the last sign of life - a visible event, or an operation other than
//     what a goroutine does while it waits for another one by spinning (atomics,
//     Gosched, selects that take their default, the harness's yields) - every
//     runnable task has taken a whole step budget of steps of its own. Everybody
//     who is runnable is spinning: a livelock. (Counted per task, not in all: a
//     worker that is on its way through thousands of atomic loads - the transport
//     looks at its closed flag on every write - gets one step in seventeen when
//     sixteen producers spin next to it.)
//   - somebody is busy (locks, channels, sockets) but nothing visible has come of
//     it for three million steps. The code under test may spend many operations
//     on one visible event - a 65 000 byte datagram written a byte at a time
//     through a transport that takes three locks per write is about a million -
//     so the bound is far beyond that: a loop that works without ever getting
//     anywhere.
//
// Besides, the harness may know that a call is being starved by work that keeps
// arriving (Cfg.Starved). A run that is still producing visible events at the
// hard cap is cut off without a verdict.
//
//go:norace
func (s *Sim) fairVerdict(decision bool) bool {
	if decision {
		s.fairDec++
	}
	if p := s.progress(); p != s.progVal {
		s.progVal, s.progStep = p, s.step
		s.workVal, s.epoch = s.work, s.epoch+1
	} else if s.work != s.workVal {
		s.workVal, s.epoch = s.work, s.epoch+1
	}
	m := s.Cfg.MaxSteps
	// the first clock: since the last sign of life every runnable task has taken
	// a whole step budget of steps of its own, all of them of the spinning kind
	spinning := len(s.elig) > 0
	for _, t := range s.elig {
		// A loop that yields the processor between its looks (Gosched, the
		// harness's yield) is a loop that waits: one step budget of it is enough.
		// A stretch of nothing but atomic operations may also be work - the
		// batching goroutine writing a 64 000-byte packet a few bytes at a time
		// looks at the transport's closed flag before every write, on every
		// destination, and does nothing else the scheduler can see - so that needs
		// far more before it counts as spinning.
		own, need := t.Steps-t.base, m
		if t.yields*16 < own {
			need = 400000
		}
		if t.epoch != s.epoch || own < need {
			spinning = false
			break
		}
	}
	switch {
	case spinning:
		s.Livelock = s.describeStuck()
		return true
	case s.step-s.progStep >= 3000000:
		s.Livelock = "(busy without any visible effect for 3000000 steps) " + s.describeStuck()
		return true
	case s.Cfg.Starved != nil && s.step%128 == 0:
		if why := s.Cfg.Starved(); why != "" {
			s.Livelock = why + " " + s.describeStuck()
			return true
		}
	}
	if s.step-s.fairStep0 >= 12000000 {
		s.Inconclusive = s.describeStuck()
		return true
	}
	return false
}

// pick returns the index into s.elig of the task to run, or -1 to advance the
// clock. s.elig is reordered so that the current task (if eligible) is first:
// tape value 0 always means "carry on".
//
//go:norace
func (s *Sim) pick() int {
	el := s.elig
	if s.last != nil {
		for i, t := range el {
			if t == s.last {
				copy(el[1:i+1], el[:i])
				el[0] = t
				break
			}
		}
	}
	n := len(el)
	if s.fair {
		// fair continuation: round-robin by task id, no clock preemption, not recorded
		return s.nextFair(el)
	}
	choice := s.Ch.ChooseFunc(n+1, "sched", func(r *Rand) int { return s.strategyPick(r, el) })
	if choice == n {
		return -1
	}
	return choice
}

//go:norace
func (s *Sim) strategyPick(r *Rand, el []*Task) int {
	c := s.strategyPick0(r, el)
	n := len(el)
	// F2, long preemption ("stalled node"): now and then the task that has just
	// run is held back where it stands for a long stretch of steps, while
	// everything else goes on - a thread that lost its CPU in the middle of an
	// operation. Only the choice is biased, the set of eligible tasks is not
	// touched, so a recorded tape replays without this state.
	if s.stalled != nil && (s.step >= s.stallEnd || s.stalled.state == stDone) {
		s.stalled = nil
	}
	if s.Cfg.PStall > 0 && s.stalled == nil && n > 1 && s.last != nil && el[0] == s.last && r.Intn(1000) < s.Cfg.PStall {
		s.stalled = s.last
		s.stallEnd = s.step + []int{8, 40, 150, 600}[r.Intn(4)]
		s.Stats.Stalls++
	}
	if s.stalled != nil && n > 1 && c < n && el[c] == s.stalled {
		c = (c + 1 + r.Intn(n-1)) % n
	}
	return c
}

//go:norace
func (s *Sim) strategyPick0(r *Rand, el []*Task) int {
	n := len(el)
	// no clock preemption while a task waits for quiescence: more ticks would
	// only keep the periodic work from ever finishing
	if s.Cfg.PAdvance > 0 && !s.quiescing && r.Intn(1000) < s.Cfg.PAdvance {
		return n
	}
	curElig := s.last != nil && el[0] == s.last
	spinning := curElig && s.last.reqKind == OpGosched
	switch s.Cfg.Strategy {
	case StratRunToCompletion:
		if spinning && n > 1 {
			return 1 + r.Intn(n-1)
		}
		return 0
	case StratSticky:
		if curElig && !spinning && r.Intn(100) < s.Cfg.PStay {
			return 0
		}
		return r.Intn(n)
	case StratContention:
		if s.lastObj != 0 && r.Intn(100) < s.Cfg.PContention {
			cnt := 0
			for i, t := range el {
				if (i > 0 || !curElig) && t.reqObj == s.lastObj {
					cnt++
				}
			}
			if cnt > 0 {
				k := r.Intn(cnt)
				for i, t := range el {
					if (i > 0 || !curElig) && t.reqObj == s.lastObj {
						if k == 0 {
							return i
						}
						k--
					}
				}
			}
		}
		if curElig && !spinning && r.Intn(100) < s.Cfg.PStay {
			return 0
		}
		return r.Intn(n)
	case StratPCT:
		for _, c := range s.pctChg {
			if c == s.step && curElig {
				s.pctNext--
				s.last.prio = s.pctNext
			}
		}
		if spinning {
			s.pctNext--
			s.last.prio = s.pctNext
		}
		best := 0
		for i, t := range el {
			if t.prio > el[best].prio {
				best = i
			}
		}
		return best
	}
	if spinning && n > 1 {
		return 1 + r.Intn(n-1)
	}
	return r.Intn(n)
}

//go:norace
func (s *Sim) runStep(t *Task) {
	s.step++
	StepsTotal.Add(1)
	if t.epoch != s.epoch {
		t.epoch, t.base, t.yields = s.epoch, t.Steps, 0
	}
	s.Stats.Steps++
	t.Steps++
	if s.last != t {
		s.Stats.Switches++
		if s.last != nil && s.eligible(s.last) {
			s.Stats.Preemptions++
			// schedule signature: where the preempted task stood and who took over
			s.sig = mix(s.sig, uint64(s.objID(s.last.reqObj))<<32|uint64(s.last.reqKind)<<16|uint64(s.last.ID))
			s.sig = mix(s.sig, uint64(s.objID(t.reqObj))<<32|uint64(t.reqKind)<<16|uint64(t.ID))
			if t.reqObj != 0 && t.reqObj == s.lastObj {
				s.Stats.ContentionHit++
			}
		}
	}
	if s.Cfg.Trace && len(s.Trace) < s.Cfg.MaxTraceLen {
		s.Trace = append(s.Trace, TraceEntry{Step: s.step, Task: t.ID, Kind: t.reqKind, Obj: s.objID(t.reqObj), Now: time.Since(s.start)})
	}
	s.grant(t)
	s.last = t
	if t.reqObj != 0 {
		s.lastObj = t.reqObj
	}
	t.state = stRunning
	raceDisable()
	t.resume <- struct{}{}
	raceEnable()
}

//go:norace
func (s *Sim) advance(preempt bool) {
	q := s.Cfg.Quanta[s.Ch.Choose(len(s.Cfg.Quanta), "quantum")]
	s.Stats.ClockAdvances++
	if preempt {
		s.Stats.ClockPreempt++
	}
	if s.Cfg.Trace && len(s.Trace) < s.Cfg.MaxTraceLen {
		s.Trace = append(s.Trace, TraceEntry{Step: s.step, Task: -1, Now: time.Since(s.start), Note: "advance " + q.String()})
	}
	time.Sleep(q)
}

//go:norace
func (s *Sim) describeStuck() string {
	out := ""
	for _, t := range s.tasks {
		if t.state == stDone {
			continue
		}
		st := "blocked-in-runtime"
		if t.state == stParked {
			st = "waiting:" + t.reqKind.String()
			if s.eligible(t) {
				st = "runnable:" + t.reqKind.String()
			}
		}
		out += fmt.Sprintf("[task %d %s %s obj=%d] ", t.ID, t.Name, st, s.objID(t.reqObj))
	}
	return out
}

// collect fills s.elig with the eligible tasks. A task waiting in Quiesce is
// eligible only when nothing else is.
//
//go:norace
func (s *Sim) collect() {
	s.elig = s.elig[:0]
	s.quiescing = false
	for _, t := range s.tasks {
		if t.reqKind == OpQuiesce && t.state == stParked {
			s.quiescing = true
		}
		if t.reqKind != OpQuiesce && s.eligible(t) {
			s.elig = append(s.elig, t)
		}
	}
	if len(s.elig) > 0 {
		return
	}
	for _, t := range s.tasks {
		if t.reqKind == OpQuiesce && t.state == stParked {
			s.elig = append(s.elig, t)
		}
	}
}

// Quiesce parks the caller until no other task can run at the current time
// (all others finished, waiting, or blocked until the clock moves).
//
//go:norace
func Quiesce() { Point(OpQuiesce, nil) }

// nextFair picks the task for a step of the fair continuation: uniformly at
// random among the eligible ones, from a generator of its own that is seeded by
// where the run stood when the continuation began (so the continuation repeats
// exactly, without lengthening the tape). Random choice is fair with
// probability one and, unlike strict round-robin, does not lock the tasks into
// a fixed phase relation: under round-robin a reader that retries while a
// writer is between two steps (a seqlock, a compare-and-swap loop) can meet the
// writer at the same point of its cycle for ever, which no real scheduler does.
//
//go:norace
func (s *Sim) nextFair(el []*Task) int {
	if s.fairRng == 0 {
		s.fairRng = 0x9e3779b97f4a7c15 ^ uint64(s.step)<<1 | 1
	}
	s.fairRng = s.fairRng*6364136223846793005 + 1442695040888963407
	return int((s.fairRng >> 33) % uint64(len(el)))
}

// nextRR picks the eligible task with the smallest id above the last one
// served, wrapping around.
//
//go:norace
func (s *Sim) nextRR(el []*Task) int {
	best, min := -1, 0
	for i, t := range el {
		if t.ID > s.rr && (best < 0 || t.ID < el[best].ID) {
			best = i
		}
		if t.ID < el[min].ID {
			min = i
		}
	}
	if best < 0 {
		best = min
	}
	s.rr = el[best].ID
	return best
}

// finish lets remaining tasks run to completion where they can, then kills
// what is left parked so that the bubble can end.
//
//go:norace
func (s *Sim) finish(mainTask *Task) {
	s.Stats.SimTime = time.Since(s.start)
	s.finished = true
	// bounded fair drain without clock movement
	if len(s.Panics) == 0 && s.Deadlock == "" && s.Livelock == "" && s.Inconclusive == "" {
		for i := 0; i < s.Cfg.DrainSteps; i++ {
			synctest.Wait()
			s.collect()
			if len(s.elig) == 0 {
				break
			}
			next := s.elig[s.nextRR(s.elig)]
			s.runStep(next)
		}
	}
	synctest.Wait()
	// kill parked tasks
	for round := 0; round < 4; round++ {
		any := false
		for _, t := range s.tasks {
			if t.state == stParked {
				any = true
				t.killed = true
				t.state = stRunning
				s.Stats.Killed++
				raceDisable()
				t.resume <- struct{}{}
				raceEnable()
				synctest.Wait()
			}
		}
		if !any {
			break
		}
	}
	for _, t := range s.tasks {
		if t.state != stDone {
			s.Stats.Leaked++
		}
	}
}

var epoch uint64

// Epoch identifies the current run; shim pools use it to empty themselves at
// the start of a run.
//
//go:norace
func Epoch() uint64 { return epoch }

// PoolDrop decides whether a pooled object was "collected".
//
//go:norace
func PoolDrop() bool {
	s := cur
	if s == nil || s.Cfg.PoolDropPct == 0 {
		return false
	}
	if s.Ch.Pct(s.Cfg.PoolDropPct, "pooldrop") {
		s.Stats.PoolDrops++
		return true
	}
	return false
}
