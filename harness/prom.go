package harness

func (env *Env) setupProm() error                    { return nil }
func (te *taskEnv) execProm(op *Op, rec *OpRec) bool { return false }
