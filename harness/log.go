package harness

import (
	"fmt"
	"reflect"
	"time"

	"verifsim/simrt"
)

// Event kinds at the reporter seam.
const (
	EvCounter     = "counter"
	EvGauge       = "gauge"
	EvTimer       = "timer"
	EvHVal        = "hval"
	EvHDur        = "hdur"
	EvFlush       = "flush"
	EvRepClose    = "repclose"
	EvAllocC      = "alloc_counter"
	EvAllocG      = "alloc_gauge"
	EvAllocT      = "alloc_timer"
	EvAllocH      = "alloc_hist"
	EvAllocVB     = "alloc_vbucket"
	EvAllocDB     = "alloc_dbucket"
	EvCapabilites = "caps"
)

// Event is one call observed at the reporter seam.
type Event struct {
	Seq    int // global sequence number at call begin
	EndSeq int // global sequence number at call return (0 while in progress)
	Step   int
	Now    time.Duration
	Task   int
	Kind   string
	Name   string
	Tags   map[string]string // deep copy taken at call time
	tagsIn map[string]string // the map object that was handed over
	I      int64
	F      uint64 // float64 bits
	Lo, Hi float64
	LoD    time.Duration
	HiD    time.Duration
	Handle int // cached path: id of the allocated handle / bucket
	Parent int // bucket: id of the histogram handle
	Cached bool
	Spec   *BucketSpec // alloc_hist / plain histogram deliveries: the Buckets object seen
}

func (e *Event) String() string {
	return fmt.Sprintf("#%d-%d t%d %s %q %v i=%d f=%x lo=%v hi=%v h=%d", e.Seq, e.EndSeq, e.Task, e.Kind, e.Name, e.Tags, e.I, e.F, e.Lo, e.Hi, e.Handle)
}

// OpRec records the execution of one program operation.
type OpRec struct {
	Task     int // harness task index (-1 prelude, -2 epilogue)
	Sim      int // simulator task id of the executing goroutine
	Idx      int
	Op       *Op
	Inv      int // global sequence at invoke
	Ret      int // global sequence at return (0 = did not return)
	InvNow   time.Duration
	RetNow   time.Duration
	Ptr      uintptr // identity of the returned / operated object
	Obj      interface{}
	Panic    string
	PanicRT  bool // the panic value is a runtime.Error (nil dereference, index out of range, ...)
	PanicVal interface{}
	Err      string
	Extra    interface{}
}

// Log is the totally ordered history of one run.
type Log struct {
	seq    int
	Events []*Event
	Ops    []*OpRec
}

// Next returns the next global sequence number.
//
//go:norace
func (l *Log) Next() int { l.seq++; return l.seq }

// Seq returns the current global sequence number.
//
//go:norace
func (l *Log) Seq() int { return l.seq }

func copyTags(m map[string]string) map[string]string {
	if m == nil {
		return nil
	}
	c := make(map[string]string, len(m))
	for k, v := range m {
		c[k] = v
	}
	return c
}

func mapPtr(m map[string]string) uintptr {
	if m == nil {
		return 0
	}
	return reflect.ValueOf(m).Pointer()
}

func (l *Log) begin(s *simrt.Sim, kind, name string, tags map[string]string) *Event {
	e := &Event{Seq: l.Next(), Kind: kind, Name: name, Tags: copyTags(tags), tagsIn: tags, Task: simrt.SelfID()}
	if s != nil {
		e.Step = s.Step()
		e.Now = s.Elapsed()
	}
	l.addEvent(e)
	return e
}

// The log is shared bookkeeping of all tasks; it is kept invisible to the race
// detector (which must only see the accesses of the code under test).
//
//go:norace
func (l *Log) addEvent(e *Event) { l.Events = simrt.AppendNR(l.Events, e) }

//go:norace
func (l *Log) addOp(r *OpRec) { l.Ops = simrt.AppendNR(l.Ops, r) }

//go:norace
func (l *Log) end(e *Event) { e.EndSeq = l.Next() }

// flushesSince counts, per task, the completed Flush calls that began after seq.
//
//go:norace
func (l *Log) twoFlushesSince(seq int) bool {
	var tasks [8]int
	var counts [8]int
	n := 0
	for j := len(l.Events) - 1; j >= 0; j-- {
		e := l.Events[j]
		if e.Seq <= seq {
			break
		}
		if e.Kind == EvFlush && e.EndSeq != 0 {
			k := -1
			for i := 0; i < n; i++ {
				if tasks[i] == e.Task {
					k = i
				}
			}
			if k < 0 && n < len(tasks) {
				tasks[n], counts[n] = e.Task, 0
				k = n
				n++
			}
			if k >= 0 {
				counts[k]++
				if counts[k] >= 2 {
					return true
				}
			}
		}
	}
	return false
}

// Delivery is a value that reached the reporter, with cached handles resolved.
type Delivery struct {
	Ev     *Event
	Kind   string // counter gauge timer hval hdur
	Name   string
	Tags   map[string]string
	I      int64
	F      uint64
	Lo, Hi float64
	LoD    time.Duration
	HiD    time.Duration
	Cached bool
}

// Key identifies name+tags.
func (d *Delivery) Key() string { return idKey(d.Name, d.Tags) }

// leftAtClose is what the record of a Close carries: the library goroutines
// that were alive at the instant the Close returned. The simulator records what
// each of them goes on to do (simrt.WatchEpilogue).
type leftAtClose struct {
	tasks []*simrt.Task
	from  []int
}

func (env *Env) watchLeft(ts []*simrt.Task) *leftAtClose {
	return &leftAtClose{tasks: ts, from: env.Sim.WatchEpilogue(ts)}
}

// stillAtWork describes the goroutines that had not finished their work when
// the Close returned. "Ended" cannot mean that the goroutine no longer exists
// at that very instant - a goroutine that announces its end with a deferred
// wg.Done(), or that closes a channel and then releases a mutex, always exists
// for a few instructions longer than the Close that waited for it. It means
// that the goroutine has nothing left to do but let go: a goroutine that, from
// the instant Close returned, only releases locks, touches atomics, returns
// pooled objects or closes channels and then returns by itself has ended;
// one that goes on to take a lock, to send, receive or select on a channel, to
// wait, or to use a socket, or that never returns, has not.
func (l *leftAtClose) stillAtWork() []string {
	var out []string
	for i, t := range l.tasks {
		ops, ended := t.Epilogue(l.from[i])
		where := t.Site
		if where == "" {
			where = t.Name
		}
		switch {
		case !ended:
			out = append(out, fmt.Sprintf("the goroutine started at %s was alive when Close returned (at: %v) and never ended", where, ops))
		case !simrt.OnlyReleases(ops):
			out = append(out, fmt.Sprintf("the goroutine started at %s was still at work when Close returned: from then on it performed %v", where, ops))
		}
	}
	return out
}
