module verifcheck

go 1.26.8
