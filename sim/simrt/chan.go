package simrt

import (
	"reflect"
	"unsafe"
)

func chanPtr[C any](ch C) unsafe.Pointer { return *(*unsafe.Pointer)(unsafe.Pointer(&ch)) }

//go:norace
func simTask() *Sim {
	s := cur
	if s == nil || getg() == s.schedG {
		return nil
	}
	return s
}

// ChanSend is a rewritten `ch <- v`.
func ChanSend[T any](ch chan<- T, v T) {
	s := simTask()
	if s == nil {
		ch <- v
		return
	}
	s.park(OpChan, uintptr(chanPtr(ch)), nil, nil, nil, nil, nil)
	s.noteWork()
	select {
	case ch <- v:
		return
	default:
	}
	ch <- v // blocks in the runtime; synctest sees it as durably blocked
	s.park(OpWake, uintptr(chanPtr(ch)), nil, nil, nil, nil, nil)
}

// ChanRecv is a rewritten `<-ch`.
func ChanRecv[T any](ch <-chan T) T {
	v, _ := ChanRecv2(ch)
	return v
}

// ChanRecv2 is a rewritten `v, ok := <-ch`.
func ChanRecv2[T any](ch <-chan T) (T, bool) {
	s := simTask()
	if s == nil {
		v, ok := <-ch
		return v, ok
	}
	s.park(OpChan, uintptr(chanPtr(ch)), nil, nil, nil, nil, nil)
	s.noteWork()
	select {
	case v, ok := <-ch:
		return v, ok
	default:
	}
	v, ok := <-ch
	s.park(OpWake, uintptr(chanPtr(ch)), nil, nil, nil, nil, nil)
	return v, ok
}

// ChanClose is a rewritten close(ch).
func ChanClose[T any](ch chan<- T) {
	if s := simTask(); s != nil {
		s.park(OpChanClose, uintptr(chanPtr(ch)), nil, nil, nil, nil, nil)
		s.noteClosed(uintptr(chanPtr(ch)))
	}
	close(ch)
}

// SelCase is one case of a rewritten select.
type SelCase struct {
	dir  reflect.SelectDir
	ch   reflect.Value
	send reflect.Value
}

// RecvCase builds a receive case.
func RecvCase[T any](ch <-chan T) SelCase {
	return SelCase{dir: reflect.SelectRecv, ch: reflect.ValueOf(ch)}
}

// SendCase builds a send case.
func SendCase[T any](ch chan<- T, v T) SelCase {
	return SelCase{dir: reflect.SelectSend, ch: reflect.ValueOf(ch), send: reflect.ValueOf(&v).Elem()}
}

// RecvVal converts the value received by Select to the channel's element type.
func RecvVal[T any](ch <-chan T, v reflect.Value) T {
	var out T
	if v.IsValid() {
		reflect.ValueOf(&out).Elem().Set(v)
	}
	return out
}

// Select is a rewritten select statement. It returns the index of the case
// that fired (-1 for default), and for a receive the value and ok flag.
func Select(hasDefault bool, cases ...SelCase) SelResult {
	i, v, ok := selectImpl(hasDefault, cases)
	return SelResult{I: i, V: v, OK: ok}
}

// SelResult is what a rewritten select switches on.
type SelResult struct {
	I  int
	V  reflect.Value
	OK bool
}

func selectImpl(hasDefault bool, cases []SelCase) (int, reflect.Value, bool) {
	s := simTask()
	n := len(cases)
	if s == nil {
		rc := make([]reflect.SelectCase, 0, n+1)
		for _, c := range cases {
			rc = append(rc, reflect.SelectCase{Dir: c.dir, Chan: c.ch, Send: c.send})
		}
		if hasDefault {
			rc = append(rc, reflect.SelectCase{Dir: reflect.SelectDefault})
		}
		i, v, ok := reflect.Select(rc)
		if i == n {
			i = -1
		}
		return i, v, ok
	}
	var obj uintptr
	if n > 0 && cases[0].ch.IsValid() && !cases[0].ch.IsNil() {
		obj = cases[0].ch.Pointer()
	}
	s.park(OpSelect, obj, nil, nil, nil, nil, nil)
	// Go chooses uniformly among the ready cases with a hidden RNG; here the
	// first case examined is a recorded decision and the rest follow cyclically.
	first := 0
	if n > 1 {
		first = s.Ch.Choose(n, "select")
	}
	for k := 0; k < n; k++ {
		i := (first + k) % n
		c := cases[i]
		if !c.ch.IsValid() || c.ch.IsNil() {
			continue
		}
		if c.dir == reflect.SelectRecv {
			if v, ok := c.ch.TryRecv(); ok || (v.IsValid()) {
				// ok==false with a valid zero value means "closed"
				s.noteSelectReady(cases, i)
				return i, v, ok
			}
		} else {
			if c.ch.TrySend(c.send) {
				s.noteSelectReady(cases, i)
				return i, reflect.Value{}, false
			}
		}
	}
	if hasDefault {
		return -1, reflect.Value{}, false // nothing happened: what a polling loop does
	}
	s.noteWork()
	rc := make([]reflect.SelectCase, 0, n)
	for _, c := range cases {
		rc = append(rc, reflect.SelectCase{Dir: c.dir, Chan: c.ch, Send: c.send})
	}
	i, v, ok := reflect.Select(rc)
	s.park(OpWake, obj, nil, nil, nil, nil, nil)
	return i, v, ok
}

//go:norace
func (s *Sim) noteSelectReady(cases []SelCase, won int) {
	s.noteWork()
	for i, c := range cases {
		if i == won || !c.ch.IsValid() || c.ch.IsNil() {
			continue
		}
		// (a timer channel never shows a length; a channel closed by the code
		// under test is known from ChanClose)
		if c.dir == reflect.SelectRecv && (c.ch.Len() > 0 || s.isClosed(c.ch.Pointer())) {
			s.Stats.SelectMulti++
			return
		}
	}
}

//go:norace
func (s *Sim) noteClosed(ch uintptr) {
	raceDisable()
	s.mu.Lock()
	s.closedCh = AppendNR(s.closedCh, ch)
	s.mu.Unlock()
	raceEnable()
}

//go:norace
func (s *Sim) isClosed(ch uintptr) bool {
	raceDisable()
	s.mu.Lock()
	found := false
	for _, c := range s.closedCh {
		if c == ch {
			found = true
			break
		}
	}
	s.mu.Unlock()
	raceEnable()
	return found
}

// ChanIter drives a rewritten `for v := range ch`.
type ChanIter[T any] struct {
	ch <-chan T
	v  T
}

// NewChanIter starts a range over ch.
func NewChanIter[T any](ch <-chan T) *ChanIter[T] { return &ChanIter[T]{ch: ch} }

// Next receives the next value; false when the channel is closed and drained.
func (it *ChanIter[T]) Next() bool {
	v, ok := ChanRecv2(it.ch)
	it.v = v
	return ok
}

// Val returns the value received by Next.
func (it *ChanIter[T]) Val() T { return it.v }

//go:norace
func (s *Sim) noteWork() { s.work++ }
