//go:build !race

package simsync

import "unsafe"

func raceAcquire(p unsafe.Pointer)      {}
func raceReleaseMerge(p unsafe.Pointer) {}
