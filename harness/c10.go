package harness

import (
	"time"
)

func init() {
	register(&Property{
		ID:    "C10",
		Gen:   genC10,
		Check: checkC10,
		Interest: func(env *Env) bool {
			return env.Sim.Stats.Preemptions > 0 && env.Probes.Custom["timer_records"] > 0 && (env.Probes.Custom["pass_between_records"] > 0 || env.Probes.Custom["stopwatch_time_advanced"] > 0)
		},
	})
}

var durMenu = []int64{0, 1, -1, 1000, 1e6, 1e9, -1e9, 9223372036854775807, -9223372036854775808, 123456789}

func genC10(g *Gen, tier string) *Program {
	p := &Program{Prop: "C10"}
	c := &p.Cfg
	baseCfg(g, c)
	c.Stack = pick(g, "plain", "plain", "cached", "cached", "test", "test", "both")
	if c.Stack == "test" {
		c.IntervalNs = 0
		g.schedule(c, 0)
		c.Quanta = []int64{1e6, 1e8, 1e9}
	}
	if g.Bool(30) {
		c.Prefix = "pre"
		c.RootTags = map[string]string{"env": "t"}
	}
	if g.Bool(25) {
		// F12: the wall clock is stepped (NTP correction, VM resume) while
		// stopwatches run and calls are in progress; elapsed time is what the
		// monotonic clock says
		for k := g.Range(1, 3); k > 0; k-- {
			c.WallSteps = append(c.WallSteps, [2]int64{pick(g, int64(1), int64(3e8), int64(75e7), int64(12e8), int64(25e8)), pick(g, int64(-3600e9), int64(3600e9), int64(-2e9), int64(5e9), int64(-86400e9))})
		}
	}
	nTasks := g.Range(1, 3)
	maxOps := 8
	if tier == "thorough" {
		maxOps = 14
	}
	uniq := int64(0)
	if g.Bool(50) {
		p.Prelude = append(p.Prelude, Op{K: "newcall", S: 0, N: 1, Name: "rpc"})
	}
	for t := 0; t < nTasks; t++ {
		var ops []Op
		nextS, nextM := 1, 1
		scopes := []int{0}
		var timers, dhists []int
		nsw := 0
		open := []int{}
		n := g.Range(3, maxOps)
		for guard := 0; len(ops) < n && guard < 100; guard++ {
			switch g.weighted(2, 3, 8, 2, 3, 3, 2, 2, 1) {
			case 0:
				if g.Bool(50) {
					ops = append(ops, Op{K: "sub", S: scopes[g.Intn(len(scopes))], D: nextS, Name: pick(g, "a", "b")})
				} else {
					ops = append(ops, Op{K: "tag", S: scopes[g.Intn(len(scopes))], D: nextS, Tags: map[string]string{"k": pick(g, "v", "w")}})
				}
				scopes = append(scopes, nextS)
				nextS++
			case 1:
				ops = append(ops, Op{K: "timer", S: scopes[g.Intn(len(scopes))], M: nextM, Name: pick(g, "t0", "t1")})
				timers = append(timers, nextM)
				nextM++
			case 2:
				if len(timers) > 0 {
					uniq++
					d := uniq*1000003 + int64(t)
					if g.Bool(25) {
						d = durMenu[g.Intn(len(durMenu))]
					}
					ops = append(ops, Op{K: "rec", M: timers[g.Intn(len(timers))], I: d})
				}
			case 3:
				ops = append(ops, Op{K: "hist", S: scopes[g.Intn(len(scopes))], M: nextM, Name: "dh", B: &BucketSpec{Dur: true, Durs: []int64{0, 1e6, 5e8, 1e9, 2e9}}})
				dhists = append(dhists, nextM)
				nextM++
			case 4: // start a stopwatch
				var m int
				if len(dhists) > 0 && g.Bool(40) {
					m = dhists[g.Intn(len(dhists))]
				} else if len(timers) > 0 {
					m = timers[g.Intn(len(timers))]
				} else {
					continue
				}
				nsw++
				ops = append(ops, Op{K: "start", M: m, N: nsw})
				open = append(open, nsw)
				if g.Bool(60) {
					ops = append(ops, Op{K: "sleep", I: pick(g, int64(1e6), int64(5e8), int64(1e9), int64(1500e6))})
				}
			case 5: // stop one
				if len(open) > 0 {
					i := g.Intn(len(open))
					// the op needs to know the metric for the oracle
					var m int
					for _, o := range ops {
						if o.K == "start" && o.N == open[i] {
							m = o.M
						}
					}
					ops = append(ops, Op{K: "stop", N: open[i], M: m})
					open = append(open[:i], open[i+1:]...)
				}
			case 6:
				if len(p.Prelude) > 0 {
					op := Op{K: "exec", N: 1}
					if g.Bool(50) {
						op.I = 1
					}
					if g.Bool(60) {
						op.F = uint64(pick(g, int64(1e6), int64(1e9)))
					}
					ops = append(ops, op)
				}
			case 7:
				if c.IntervalNs > 0 {
					ops = append(ops, Op{K: "sleep", I: pick(g, c.IntervalNs/2, c.IntervalNs)})
				}
			case 8:
				if len(scopes) > 1 && g.Bool(50) {
					ops = append(ops, Op{K: "close", S: scopes[1+g.Intn(len(scopes)-1)]})
				}
			}
		}
		for _, s := range open {
			var m int
			for _, o := range ops {
				if o.K == "start" && o.N == s {
					m = o.M
				}
			}
			ops = append(ops, Op{K: "stop", N: s, M: m})
		}
		p.Tasks = append(p.Tasks, ops)
	}
	if c.Stack == "test" {
		p.Epilogue = append(p.Epilogue, Op{K: "snap", S: 0})
	} else {
		settleEpilogue(g, p)
	}
	return p
}

func checkC10(env *Env) []Violation {
	ops := env.OpsBeforeTeardown()
	var out []Violation
	out = append(out, opPanics(ops, nil)...)
	ci := newCloseInfo(env, ops)
	isTest := env.Prog.Cfg.Stack == "test"
	var timerEvents []*Event
	end := env.teardownSeq()
	for _, e := range env.Log.Events {
		if e.Kind == EvTimer && e.Seq < end {
			timerEvents = append(timerEvents, e)
		}
	}
	used := map[*Event]bool{}
	find := func(r *OpRec, name string, tags map[string]string, match func(e *Event) bool) []*Event {
		var got []*Event
		for _, e := range timerEvents {
			if e.Seq > r.Inv && (r.Ret == 0 || e.Seq < r.Ret) && e.Task == r.Sim && !used[e] && match(e) {
				got = append(got, e)
			}
		}
		return got
	}
	snapWant := map[string][]int64{} // test stack: per identity, per task order
	snapByTask := map[string]map[int][]int64{}
	ambiguous := map[string]bool{}
	addSnap := func(mv *metricVar, task int, d int64) {
		k := idKey(mv.FullName, mv.Tags)
		snapWant[k] = append(snapWant[k], d)
		if snapByTask[k] == nil {
			snapByTask[k] = map[int][]int64{}
		}
		snapByTask[k][task] = append(snapByTask[k][task], d)
	}
	histWant := map[string]*swHist{}
	lastPassSeq := 0
	execOK, execErr := 0, 0
	var callScope *scopeVar
	for _, r := range ops {
		if r.Op.K == "newcall" {
			callScope, _ = r.Obj.(*scopeVar)
		}
	}
	for _, r := range ops {
		switch r.Op.K {
		case "rec":
			mv, _ := r.Obj.(*metricVar)
			if mv == nil || r.Ret == 0 || r.Panic != "" {
				continue
			}
			env.Probes.inc("timer_records")
			for _, e := range env.Log.Events {
				if (e.Kind == EvFlush) && e.Seq > lastPassSeq && e.Seq < r.Inv {
					env.Probes.inc("pass_between_records")
					lastPassSeq = e.Seq
					break
				}
			}
			lv := ci.liveness(mv.scope)
			if isTest {
				if lv == live {
					addSnap(mv, r.Task, r.Op.I)
				} else if lv == maybe {
					// the handle's scope was derived while its parent was being closed:
					// it is either the live scope or the inert one, the statement does
					// not say which - no exact expectation for this identity
					ambiguous[idKey(mv.FullName, mv.Tags)] = true
				}
				continue
			}
			got := find(r, mv.FullName, mv.Tags, func(e *Event) bool { return true })
			switch {
			case lv == inertVar:
				if len(got) != 0 {
					out = append(out, vf("inert-timer-delivered", "Record on a timer of an inert scope was delivered: %s", got[0]))
				}
			case len(got) == 0 && lv == maybe:
			case len(got) != 1:
				out = append(out, vf("timer-not-forwarded-once", "Timer.Record(%d) on %q %v produced %d deliveries by the recording goroutine before it returned", r.Op.I, mv.FullName, mv.Tags, len(got)))
			default:
				e := got[0]
				used[e] = true
				if e.I != r.Op.I {
					out = append(out, vf("timer-wrong-value", "Timer.Record(%d) delivered %d", r.Op.I, e.I))
				}
				if idKey(e.Name, e.Tags) != idKey(mv.FullName, mv.Tags) && (mv.AltName == "" || idKey(e.Name, e.Tags) != idKey(mv.AltName, mv.Tags)) {
					out = append(out, vf("timer-wrong-identity", "Timer.Record on %q %v delivered as %q %v", mv.FullName, mv.Tags, e.Name, e.Tags))
				}
				if env.Cached != nil && !e.Cached {
					out = append(out, vf("timer-plain-path", "cached reporter configured but the timer value did not go through the cached handle"))
				}
			}
		case "stop":
			mv, _ := r.Obj.(*metricVar)
			st, ok := r.Extra.([2]time.Duration)
			if mv == nil || !ok || r.Ret == 0 || r.Panic != "" {
				continue
			}
			lo := r.InvNow - st[1]
			hi := r.RetNow - st[0]
			if hi > lo {
				env.Probes.inc("stopwatch_time_advanced")
			}
			if lo > 0 {
				env.Probes.inc("stopwatch_nonzero")
			}
			lv := ci.liveness(mv.scope)
			if mv.kind == "timer" {
				if isTest {
					if lv == maybe {
						ambiguous[idKey(mv.FullName, mv.Tags)] = true
					}
					if lv == live {
						// value checked against the snapshot below through bounds
						addSnap(mv, r.Task, -7777777) // placeholder replaced by range check
						sw := snapWant[idKey(mv.FullName, mv.Tags)]
						sw[len(sw)-1] = int64(lo)
						bt := snapByTask[idKey(mv.FullName, mv.Tags)][r.Task]
						bt[len(bt)-1] = int64(lo)
						if hi != lo {
							// ambiguous elapsed time: no exact expectation for this identity
							ambiguous[idKey(mv.FullName, mv.Tags)] = true
						}
					}
					continue
				}
				got := find(r, mv.FullName, mv.Tags, func(e *Event) bool { return true })
				if lv == inertVar {
					continue
				}
				if len(got) == 0 && lv == maybe {
					continue
				}
				if len(got) != 1 {
					out = append(out, vf("stopwatch-not-recorded-once", "Stopwatch.Stop on timer %q produced %d deliveries", mv.FullName, len(got)))
					continue
				}
				used[got[0]] = true
				if d := time.Duration(got[0].I); d < lo || d > hi {
					out = append(out, vf("stopwatch-wrong-elapsed", "stopwatch on %q recorded %v, elapsed between Start and Stop was between %v and %v", mv.FullName, d, lo, hi))
				}
			}
			// duration-histogram stopwatch: the sample must land in a bucket that
			// contains an elapsed time between lo and hi (checked after the settle step)
			if mv.kind == "hist" && lv == maybe && mv.spec != nil && mv.spec.Dur {
				// requested while a Close of an ancestor was in progress: the handle may be
				// the live histogram of that identity or an inert one, so what this
				// identity receives is not determined
				k := idKey(mv.FullName, mv.Tags)
				if histWant[k] == nil {
					t := TilingOf(mv.spec, env.Prog.Cfg.DefBuckets)
					histWant[k] = &swHist{name: mv.FullName, tags: mv.Tags, til: t, min: make([]int64, t.N()), max: make([]int64, t.N())}
				}
				histWant[k].loose = true
			}
			if mv.kind == "hist" && lv == live && mv.spec != nil && mv.spec.Dur {
				k := idKey(mv.FullName, mv.Tags)
				t := TilingOf(mv.spec, env.Prog.Cfg.DefBuckets)
				a, b := t.IndexD(int64(lo)), t.IndexD(int64(hi))
				hw := histWant[k]
				if hw == nil {
					hw = &swHist{name: mv.FullName, tags: mv.Tags, til: t, min: make([]int64, t.N()), max: make([]int64, t.N())}
					histWant[k] = hw
				}
				ob := ci.obligation(mv, r)
				if a == b && ob == required {
					hw.min[a]++
				}
				for i := a; i <= b; i++ {
					hw.max[i]++
				}
				hw.total++
				if ob != required {
					hw.loose = true
				}
			}
		case "exec":
			res, _ := r.Extra.(*execResult)
			if res == nil || r.Ret == 0 {
				continue
			}
			if res.Calls != 1 {
				out = append(out, vf("exec-call-count", "instrumented function ran %d times", res.Calls))
			}
			if !res.RetSame {
				out = append(out, vf("exec-error-changed", "instrumented call did not return the function's error unchanged"))
			}
			if r.Op.I != 0 {
				execErr++
			} else {
				execOK++
			}
			if !isTest && callScope != nil {
				got := find(r, "", nil, func(e *Event) bool { return true })
				if len(got) != 1 {
					out = append(out, vf("exec-latency-count", "instrumented call recorded %d latencies", len(got)))
				} else {
					used[got[0]] = true
					sm := env.Model.Sub(callScope.model, "rpc")
					full, _ := env.Model.MetricName(sm, "latency")
					if got[0].Name != full {
						out = append(out, vf("exec-latency-name", "latency recorded as %q, expected %q", got[0].Name, full))
					}
					lo, hi := res.Slept, r.RetNow-r.InvNow
					if d := time.Duration(got[0].I); d < lo || d > hi {
						out = append(out, vf("exec-latency-value", "latency %v outside [%v, %v]", d, lo, hi))
					}
				}
			}
		}
	}
	// report passes neither repeat nor buffer timer values: every timer delivery
	// belongs to exactly one Record / Stop / Exec
	if !isTest {
		for _, e := range timerEvents {
			if !used[e] {
				// deliveries of inert / maybe scopes were not marked; only flag deliveries outside any op window of that task
				inside := false
				for _, r := range ops {
					if (r.Op.K == "rec" || r.Op.K == "stop" || r.Op.K == "exec") && r.Sim == e.Task && e.Seq > r.Inv && (r.Ret == 0 || e.Seq < r.Ret) {
						inside = true
					}
				}
				if !inside {
					out = append(out, vf("timer-extra-delivery", "timer value delivered outside any Record/Stop call (buffered or repeated by a pass?): %s", e))
				}
			}
		}
	}
	// exec counters: exactly one of success / error per call
	if callScope != nil && (execOK+execErr) > 0 {
		if _, settled, ok := opWindow(ops, "settle"); ok && !isTest && ci.rootInv > settled-1 || (!isTest && ok && ci.rootInv >= 0) {
			okName, _ := env.Model.MetricName(env.Model.Tagged(callScope.model, map[string]string{"result_type": "success"}), "rpc")
			okTags := env.Model.Tagged(callScope.model, map[string]string{"result_type": "success"}).Tags
			errTags := env.Model.Tagged(callScope.model, map[string]string{"result_type": "error"}).Tags
			var sOK, sErr int64
			for _, d := range env.Deliveries() {
				if d.Kind == EvCounter && d.Name == okName && d.Ev.Seq < settled {
					if idKey(d.Name, d.Tags) == idKey(okName, okTags) {
						sOK += d.I
					} else if idKey(d.Name, d.Tags) == idKey(okName, errTags) {
						sErr += d.I
					}
				}
			}
			// only exact when the root was not closed while calls were running
			allBefore := true
			for _, r := range ops {
				if r.Op.K == "exec" && !(r.Ret != 0 && r.Ret < ci.rootInv) {
					allBefore = false
				}
			}
			if allBefore && (sOK != int64(execOK) || sErr != int64(execErr)) {
				out = append(out, vf("exec-counters", "instrumented calls: %d succeeded / %d failed, counters delivered success=%d error=%d", execOK, execErr, sOK, sErr))
			}
		}
	}
	// stopwatches on duration histograms (only this profile's "dh" histograms, which
	// receive stopwatch samples only)
	if _, settled, ok := opWindow(ops, "settle"); ok && !isTest {
		got := map[string]map[int64]int64{}
		for _, d := range env.Deliveries() {
			if d.Kind == EvHDur && d.Ev.Seq < settled {
				k := idKey(d.Name, d.Tags)
				if got[k] == nil {
					got[k] = map[int64]int64{}
				}
				got[k][int64(d.HiD)] += d.I
			}
		}
		for k, hw := range histWant {
			if hw.loose {
				continue
			}
			var total int64
			for i := 0; i < hw.til.N(); i++ {
				n := got[k][hw.til.UD[i]]
				total += n
				if n < hw.min[i] || n > hw.max[i] {
					out = append(out, vf("stopwatch-histogram-bucket", "duration histogram %q %v: bucket <= %v received %d stopwatch samples, elapsed times allow %d..%d", hw.name, hw.tags, time.Duration(hw.til.UD[i]), n, hw.min[i], hw.max[i]))
				}
			}
			if total != hw.total {
				out = append(out, vf("stopwatch-histogram-count", "duration histogram %q %v: %d stopwatches stopped, %d samples delivered", hw.name, hw.tags, hw.total, total))
			}
		}
	}
	// test scopes: timer values are kept, in order, and visible in the snapshot
	if isTest {
		var snap *SnapCopy
		for _, r := range ops {
			if r.Op.K == "snap" && r.Task == -2 {
				snap, _ = r.Extra.(*SnapCopy)
			}
		}
		if snap != nil {
			got := map[string][]time.Duration{}
			for _, e := range snap.Timers {
				got[idKey(e.Name, e.Tags)] = e.Timers
			}
			for k, want := range snapWant {
				if ambiguous[k] {
					continue
				}
				g := got[k]
				if len(g) != len(want) {
					out = append(out, vf("snapshot-timer-count", "timer %s: %d values recorded %v, snapshot has %d %v", k, len(want), want, len(g), g))
					continue
				}
				// per recording task the order is preserved
				for task, seq := range snapByTask[k] {
					i := 0
					for _, v := range g {
						if i < len(seq) && int64(v) == seq[i] {
							i++
						}
					}
					if i != len(seq) {
						out = append(out, vf("snapshot-timer-order", "timer %s: values of task %d %v are not a subsequence of the snapshot %v", k, task, seq, g))
					}
				}
			}
		}
	}
	return out
}

type swHist struct {
	name     string
	tags     map[string]string
	til      *Tiling
	min, max []int64
	total    int64
	loose    bool
}
