module simgen

go 1.26.8
