#!/bin/bash
# check_fixed.sh : replay every file under replays/fixed/ (the minimised history of each repaired defect) against
# the current /repo. Each must end with "no violation on the current tree".
cd "$(dirname "$0")/.."
rc=0
for f in replays/fixed/*.json; do
  id=$(python3 -c "import json;print(json.load(open('$f'))['property'])")
  out=$(./check $id --replay $f 2>&1 | tail -1)
  case "$out" in
    *"no violation"*) echo "ok   $(basename $f)";;
    *) echo "BACK $(basename $f): $out"; rc=1;;
  esac
done
exit $rc
