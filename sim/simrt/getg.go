package simrt

// getg returns the address of the running goroutine's g structure. It is used
// only as an opaque identity for "which task is calling a shim".
func getg() uintptr
