package harness

import (
	"fmt"
	"reflect"
	"sort"
	"time"

	tally "github.com/uber-go/tally/v4"
)

func init() {
	register(&Property{
		ID:    "C11",
		Gen:   genC11,
		Check: checkC11,
		Interest: func(env *Env) bool {
			return env.Probes.Custom["quiescent_snapshots"] > 0 && (env.Probes.Custom["concurrent_snapshots"] > 0 || env.Probes.Custom["resnap_checked"] > 0)
		},
	})
}

var specMenu = []*BucketSpec{
	{Bits: []uint64{f64bits(1), f64bits(2)}},
	{Bits: []uint64{f64bits(2), f64bits(1), f64bits(2)}}, // unsorted, duplicated
	{Bits: []uint64{f64bits(-1), f64bits(0), f64bits(0.5)}},
	{Dur: true, Durs: []int64{1e6, 1e9}},
	{Dur: true, Durs: []int64{1e9, 1e6, 1e6}},
	{Nil: true},
}

func genC11(g *Gen, tier string) *Program {
	p := &Program{Prop: "C11"}
	c := &p.Cfg
	c.Stack = "test"
	c.CPUs = pick(g, 1, 2, 4)
	g.schedule(c, 0)
	if g.Bool(50) {
		c.Prefix = pick(g, "svc", "a.b", "")
	}
	if g.Bool(50) {
		c.RootTags = map[string]string{"env": "test"}
	}
	maxOps := 9
	if tier == "thorough" {
		maxOps = 16
	}
	nTasks := g.Range(1, 3)
	uniq := 0
	for t := 0; t < nTasks; t++ {
		var ops []Op
		nextS, nextM := 1, 1
		scopes := []int{0}
		by := map[string][]int{}
		n := g.Range(3, maxOps)
		for guard := 0; len(ops) < n && guard < 100; guard++ {
			switch g.weighted(3, 2, 2, 2, 2, 6, 2, 3, 3, 1, 2) {
			case 0:
				par := scopes[g.Intn(len(scopes))]
				if g.Bool(50) {
					ops = append(ops, Op{K: "sub", S: par, D: nextS, Name: pick(g, "a", "b", "c")})
				} else {
					ops = append(ops, Op{K: "tag", S: par, D: nextS, Tags: map[string]string{pick(g, "k", "env"): pick(g, "v", "w")}})
				}
				scopes = append(scopes, nextS)
				nextS++
			case 1, 2, 3, 4:
				kind := []string{"counter", "gauge", "timer", "hist"}[g.Intn(4)]
				op := Op{K: kind, S: scopes[g.Intn(len(scopes))], M: nextM, Name: kind[:1] + pick(g, "0", "1")}
				if (kind == "counter" || kind == "timer") && g.Bool(15) {
					// a name that spells out a subscope: "a.c0" on a scope is the same
					// full name as "c0" on its subscope "a" - one identity, two scopes
					op.Name = pick(g, "a", "b", "c") + "." + op.Name
				}
				if (kind == "counter" || kind == "timer") && g.Bool(5) {
					op.Name = "" // the empty name: the full name is the scope's prefix (and separator), or nothing at all
				}
				if kind == "gauge" {
					op.Name = "g" + string(rune('A'+t))
				}
				if kind == "hist" {
					op.B = specMenu[g.Intn(len(specMenu))]
					op.Name = "h" + string(rune('A'+g.Intn(3)))
				}
				ops = append(ops, op)
				by[kind] = append(by[kind], nextM)
				nextM++
			case 5:
				if ms := by["counter"]; len(ms) > 0 {
					ops = append(ops, Op{K: "inc", M: ms[g.Intn(len(ms))], I: int64(1 + g.Intn(5))})
				}
			case 6:
				if ms := by["gauge"]; len(ms) > 0 {
					uniq++
					ops = append(ops, Op{K: "upd", M: ms[g.Intn(len(ms))], F: uniqueFloatBits(g, uniq+100*t)})
				}
			case 7:
				if ms := by["timer"]; len(ms) > 0 {
					uniq++
					ops = append(ops, Op{K: "rec", M: ms[g.Intn(len(ms))], I: int64(uniq)*1009 + int64(t)})
				}
			case 8:
				if ms := by["hist"]; len(ms) > 0 {
					if g.Bool(50) {
						ops = append(ops, Op{K: "recv", M: ms[g.Intn(len(ms))], F: f64bits(pick(g, -1.0, 0, 0.5, 1, 1.5, 2, 3))})
					} else {
						ops = append(ops, Op{K: "recd", M: ms[g.Intn(len(ms))], I: pick(g, int64(0), int64(1e6), int64(5e8), int64(1e9), int64(2e9))})
					}
				}
			case 9:
				if len(scopes) > 1 {
					s := scopes[1+g.Intn(len(scopes)-1)]
					ops = append(ops, Op{K: "close", S: s})
				}
			case 10:
				ops = append(ops, Op{K: "yield"})
			}
		}
		p.Tasks = append(p.Tasks, ops)
	}
	if g.Bool(10) {
		// two different tag sets that the documented key format spells the same way
		// (a delimiter inside a value or key): two metrics, one snapshot key
		twins := [][2]map[string]string{
			{{"a": "1,b=2"}, {"a": "1", "b": "2"}},
			{{"a=1,b": "2"}, {"a": "1", "b": "2"}},
			{{"k": "v,m=w"}, {"k": "v", "m": "w"}},
		}
		tw := twins[g.Intn(len(twins))]
		for i := 0; i < 2; i++ {
			p.Tasks = append(p.Tasks, []Op{{K: "tag", S: 0, D: 1, Tags: tw[i]},
				{K: "counter", S: 1, M: 1, Name: "c0"}, {K: "inc", M: 1, I: int64(1 + i)},
				{K: "timer", S: 1, M: 2, Name: "t0"}, {K: "rec", M: 2, I: int64(5000 + i)}})
		}
	}
	if g.Bool(15) {
		// histograms created at the same time on different scopes of the tree with
		// bucket sets that collide in the root's shared bucket cache: each must
		// still show its own bounds in the snapshot
		fam := collidingFamily(g)
		for i := 0; i < 2; i++ {
			spec := fam[i%len(fam)]
			ops := []Op{{K: "sub", S: 0, D: 1, Name: pick(g, "qa", "qb") + fmt.Sprint(i)}, {K: "hist", S: 1, M: 1, Name: "hq", B: spec}}
			if spec.Dur {
				for _, d := range spec.Durs {
					ops = append(ops, Op{K: "recd", M: 1, I: d})
				}
			} else {
				for _, b := range spec.Bits {
					ops = append(ops, Op{K: "recv", M: 1, F: b})
				}
			}
			p.Tasks = append(p.Tasks, ops)
		}
	}
	if g.Bool(6) && c.Prefix == "" {
		// two different identities built around an escape character (a name or a
		// tag that ends in a backslash next to one that contains the delimiter):
		// their documented keys differ, so they are two entries of the snapshot
		tw := escapeTwins(g, pick(g, "p", "svc"), "a", "1", "b", "2")
		for i, d := range tw[g.Intn(len(tw))] {
			inc := int64(3 + 4*i)
			p.Tasks = append(p.Tasks, d.ops(func(sv int) []Op {
				return []Op{{K: "counter", S: sv, M: 1, Name: "c0"}, {K: "inc", M: 1, I: inc}, {K: "timer", S: sv, M: 2, Name: "t0"}, {K: "rec", M: 2, I: 1000 + inc}}
			}))
		}
	}
	if g.Bool(60) {
		var ops []Op
		for i := g.Range(1, 3); i > 0; i-- {
			for k := g.Intn(3); k > 0; k-- {
				ops = append(ops, Op{K: "yield"})
			}
			ops = append(ops, Op{K: "snap", S: 0, Ref: 100 + i})
		}
		p.Tasks = append(p.Tasks, ops)
	}
	// epilogue: quiescent snapshot; keep it, record more, compare, mutate, snapshot again
	p.Epilogue = append(p.Epilogue, Op{K: "snap", S: 0, N: 1, Ref: 1})
	p.Epilogue = append(p.Epilogue, Op{K: "counter", S: 0, M: 70, Name: "c0"}, Op{K: "inc", M: 70, I: 7},
		Op{K: "timer", S: 0, M: 71, Name: "t0"}, Op{K: "rec", M: 71, I: 424242},
		Op{K: "gauge", S: 0, M: 72, Name: "gZ"}, Op{K: "upd", M: 72, F: f64bits(42.5)},
		Op{K: "hist", S: 0, M: 73, Name: "hA", B: specMenu[0]}, Op{K: "recv", M: 73, F: f64bits(1)})
	p.Epilogue = append(p.Epilogue, Op{K: "resnap", Ref: 1})
	if g.Bool(70) {
		p.Epilogue = append(p.Epilogue, Op{K: "mutsnap", Ref: 1})
	}
	p.Epilogue = append(p.Epilogue, Op{K: "snap", S: 0, Ref: 2})
	return p
}

type snapModel struct {
	counters map[string]*SnapEntry
	gauges   map[string]*SnapEntry
	timers   map[string]*SnapEntry
	hists    map[string]*SnapEntry
	ambig    map[string]bool
	tasks    map[string]map[int]bool
}

// modelSnapshot computes what a quiescent snapshot taken at sequence number at
// must contain.
func modelSnapshot(env *Env, ops []*OpRec, ci *closeInfo, at int) *snapModel {
	m := &snapModel{counters: map[string]*SnapEntry{}, gauges: map[string]*SnapEntry{}, timers: map[string]*SnapEntry{}, hists: map[string]*SnapEntry{}, ambig: map[string]bool{}, tasks: map[string]map[int]bool{}}
	get := func(mm map[string]*SnapEntry, mv *metricVar) *SnapEntry {
		k := idKey(mv.FullName, mv.Tags)
		e := mm[k]
		if e == nil {
			e = &SnapEntry{Name: mv.FullName, Tags: mv.Tags}
			mm[k] = e
		}
		return e
	}
	for _, r := range ops {
		if r.Inv >= at {
			break
		}
		mv, _ := r.Obj.(*metricVar)
		if mv == nil || r.Panic != "" {
			continue
		}
		k := idKey(mv.FullName, mv.Tags)
		switch ci.liveness(mv.scope) {
		case inertVar:
			continue
		case maybe:
			m.ambig[k] = true
		}
		if mv.AltName != "" {
			m.ambig[k] = true
		}
		switch r.Op.K {
		case "counter":
			get(m.counters, mv)
		case "gauge":
			get(m.gauges, mv)
		case "timer":
			get(m.timers, mv)
		case "hist":
			e := get(m.hists, mv)
			if e.HV == nil && e.HD == nil {
				fs, amb := firstHistSpec(ops, ci, k)
				if amb {
					m.ambig[k] = true
				}
				t := TilingOf(fs, env.Prog.Cfg.DefBuckets)
				if t.Dur {
					e.HasHD, e.HD = true, map[int64]int64{}
					for _, u := range t.UD {
						e.HD[u] += 0
					}
				} else {
					e.HasHV, e.HV = true, map[uint64]int64{}
					for _, u := range t.UF {
						e.HV[f64bits(u+0)] += 0
					}
				}
			}
		case "inc":
			get(m.counters, mv).I += r.Op.I
		case "upd":
			get(m.gauges, mv).F = r.Op.F
			if m.tasks[k] == nil {
				m.tasks[k] = map[int]bool{}
			}
			m.tasks[k][r.Task] = true
		case "rec":
			e := get(m.timers, mv)
			e.Timers = append(e.Timers, time.Duration(r.Op.I))
		case "recv", "recd":
			e := m.hists[k]
			if e == nil {
				continue
			}
			// the histogram that exists under this identity was created by the first
			// "hist" op on it; later requests with other specs return the same object
			first, _ := firstHistSpec(ops, ci, k)
			t := TilingOf(first, env.Prog.Cfg.DefBuckets)
			if r.Op.K == "recv" && !t.Dur {
				if i := t.IndexF(f64from(r.Op.F)); i >= 0 {
					e.HV[f64bits(t.UF[i]+0)]++
				} else {
					m.ambig[k] = true
				}
			} else if r.Op.K == "recd" && t.Dur {
				e.HD[t.UD[t.IndexD(r.Op.I)]]++
			}
		}
	}
	return m
}

// firstHistSpec returns the bucket specification of the histogram that exists
// under an identity: the one of the first request. If another request with a
// different specification overlapped the first one, which of them created the
// histogram depends on the schedule (ambiguous).
func firstHistSpec(ops []*OpRec, ci *closeInfo, key string) (*BucketSpec, bool) {
	var first *OpRec
	var spec *BucketSpec
	ambiguous := false
	for _, r := range ops {
		if r.Op.K != "hist" {
			continue
		}
		mv, _ := r.Obj.(*metricVar)
		if mv == nil || idKey(mv.FullName, mv.Tags) != key {
			continue
		}
		switch ci.liveness(mv.scope) {
		case inertVar:
			continue // requested from an inert scope: creates nothing
		case maybe:
			ambiguous = true
		}
		if first == nil {
			first, spec = r, mv.spec
			continue
		}
		if (first.Ret == 0 || r.Inv < first.Ret) && !reflect.DeepEqual(specOf(spec.Buckets()), specOf(mv.spec.Buckets())) {
			ambiguous = true
		}
	}
	return spec, ambiguous
}

func compareSnap(kind string, got map[string]SnapEntry, want map[string]*SnapEntry, ambig map[string]bool, eq func(g SnapEntry, w *SnapEntry) string) []Violation {
	var out []Violation
	seen := map[string]bool{}
	// different metrics whose documented snapshot key is the same string (a
	// delimiter inside a name, tag key or tag value): the snapshot has one map
	// slot for them. Every discrepancy on such a metric is reported as that.
	byDoc := map[string][]string{}
	for k, w := range want {
		doc := tally.KeyForPrefixedStringMap(w.Name, w.Tags)
		byDoc[doc] = append(byDoc[doc], k)
	}
	shared := func(k string, w *SnapEntry) *SnapEntry {
		for _, o := range byDoc[tally.KeyForPrefixedStringMap(w.Name, w.Tags)] {
			if o != k {
				return want[o]
			}
		}
		return nil
	}
	collision := func(w, o *SnapEntry, what string) Violation {
		return vf("snapshot-key-collision", "%s %q %v and %s %q %v share the snapshot key %q: %s", kind, w.Name, w.Tags, kind, o.Name, o.Tags, tally.KeyForPrefixedStringMap(w.Name, w.Tags), what)
	}
	for mapKey, g := range got {
		k := idKey(g.Name, g.Tags)
		if wantKey := tally.KeyForPrefixedStringMap(g.Name, g.Tags); wantKey != mapKey {
			out = append(out, vf("snapshot-key", "%s entry %q %v is stored under key %q, KeyForPrefixedStringMap gives %q", kind, g.Name, g.Tags, mapKey, wantKey))
		}
		if seen[k] {
			out = append(out, vf("snapshot-duplicate", "%s %q %v appears twice in the snapshot", kind, g.Name, g.Tags))
		}
		seen[k] = true
		w := want[k]
		if w == nil {
			out = append(out, vf("snapshot-unknown", "%s %q %v in the snapshot was never created", kind, g.Name, g.Tags))
			continue
		}
		if ambig[k] {
			continue
		}
		if msg := eq(g, w); msg != "" {
			if o := shared(k, w); o != nil {
				out = append(out, collision(w, o, msg))
				continue
			}
			out = append(out, vf("snapshot-value", "%s %q %v: %s", kind, g.Name, g.Tags, msg))
		}
	}
	for k, w := range want {
		if !seen[k] && !ambig[k] {
			if o := shared(k, w); o != nil {
				out = append(out, collision(w, o, "the first is not in the snapshot"))
				continue
			}
			out = append(out, vf("snapshot-missing", "%s %q %v was created but is not in the snapshot", kind, w.Name, w.Tags))
		}
	}
	return out
}

func checkC11(env *Env) []Violation {
	ops := env.OpsBeforeTeardown()
	var out []Violation
	out = append(out, opPanics(ops, nil)...)
	ci := newCloseInfo(env, ops)
	// a closed test subscope is returned again (same object)
	for _, r := range ops {
		if r.Op.K != "sub" && r.Op.K != "tag" {
			continue
		}
		sv, _ := r.Obj.(*scopeVar)
		if sv == nil || ci.liveness(sv) != live {
			continue
		}
		for _, q := range ops {
			if q == r {
				break
			}
			if qs, _ := q.Obj.(*scopeVar); qs != nil && (q.Op.K == "sub" || q.Op.K == "tag") && q.Ret != 0 && q.Ret < r.Inv && ci.liveness(qs) == live &&
				idKey(qs.model.Prefix, qs.model.Tags) == idKey(sv.model.Prefix, sv.model.Tags) && qs.ptr != sv.ptr && !qs.model.HasAlt {
				out = append(out, vf("test-scope-replaced", "test scope prefix %q tags %v: a later request returned a different object", sv.model.Prefix, sv.model.Tags))
			}
		}
	}
	var firstEp *SnapCopy
	for _, r := range ops {
		if r.Panic != "" || r.Ret == 0 {
			continue
		}
		switch r.Op.K {
		case "snap":
			sc, _ := r.Extra.(*SnapCopy)
			if sc == nil {
				continue
			}
			if r.Task == -2 {
				env.Probes.inc("quiescent_snapshots")
				m := modelSnapshot(env, ops, ci, r.Inv)
				out = append(out, compareSnap("counter", sc.Counters, m.counters, m.ambig, func(g SnapEntry, w *SnapEntry) string {
					if g.I != w.I {
						return sprintf("value %d, increments sum to %d", g.I, w.I)
					}
					return ""
				})...)
				out = append(out, compareSnap("gauge", sc.Gauges, m.gauges, m.ambig, func(g SnapEntry, w *SnapEntry) string {
					if g.F != w.F && len(m.tasks[idKey(w.Name, w.Tags)]) <= 1 {
						return sprintf("value bits %#x, last update %#x", g.F, w.F)
					}
					return ""
				})...)
				out = append(out, compareSnap("timer", sc.Timers, m.timers, m.ambig, func(g SnapEntry, w *SnapEntry) string {
					a := append([]time.Duration(nil), g.Timers...)
					b := append([]time.Duration(nil), w.Timers...)
					sort.Slice(a, func(i, j int) bool { return a[i] < a[j] })
					sort.Slice(b, func(i, j int) bool { return b[i] < b[j] })
					if !reflect.DeepEqual(a, b) && !(len(a) == 0 && len(b) == 0) {
						return sprintf("values %v, recorded %v", g.Timers, w.Timers)
					}
					return ""
				})...)
				out = append(out, compareSnap("histogram", sc.Histograms, m.hists, m.ambig, func(g SnapEntry, w *SnapEntry) string {
					if w.HasHV {
						if !reflect.DeepEqual(g.HV, w.HV) {
							return sprintf("value buckets %v, model %v", fmtHV(g.HV), fmtHV(w.HV))
						}
						if g.HasHD {
							return "value histogram reports duration buckets"
						}
					}
					if w.HasHD {
						if !reflect.DeepEqual(g.HD, w.HD) {
							return sprintf("duration buckets %v, model %v", g.HD, w.HD)
						}
						if g.HasHV {
							return "duration histogram reports value buckets"
						}
					}
					return ""
				})...)
				if firstEp == nil {
					firstEp = sc
				}
			} else {
				// concurrent snapshot: every counter lies between what had completed
				// before the call and what had been invoked before it returned
				env.Probes.inc("concurrent_snapshots")
				lo := modelSnapshot(env, completedBefore(ops, r.Inv), ci, inf)
				hi := modelSnapshot(env, ops, ci, r.Ret)
				docs := map[string]int{}
				for _, w := range hi.counters {
					docs[tally.KeyForPrefixedStringMap(w.Name, w.Tags)]++
				}
				for _, g := range sc.Counters {
					k := idKey(g.Name, g.Tags)
					if hi.ambig[k] || docs[tally.KeyForPrefixedStringMap(g.Name, g.Tags)] > 1 {
						continue // shared snapshot key: reported by the quiescent comparison (D20)
					}
					h := hi.counters[k]
					if h == nil {
						out = append(out, vf("snapshot-unknown", "counter %q %v in a concurrent snapshot was never requested", g.Name, g.Tags))
						continue
					}
					var l int64
					if le := lo.counters[k]; le != nil {
						l = le.I
					}
					if g.I < l || g.I > h.I {
						out = append(out, vf("snapshot-concurrent-range", "counter %q %v: concurrent snapshot shows %d, outside [%d, %d]", g.Name, g.Tags, g.I, l, h.I))
					}
				}
			}
		case "resnap":
			sc, _ := r.Extra.(*SnapCopy)
			if sc == nil || firstEp == nil {
				continue
			}
			env.Probes.inc("resnap_checked")
			a, b := *firstEp, *sc
			a.raw, b.raw = nil, nil
			if !reflect.DeepEqual(a, b) {
				out = append(out, vf("snapshot-not-independent", "a snapshot changed after later recording on the scope"))
			}
		}
	}
	return out
}

func completedBefore(ops []*OpRec, at int) []*OpRec {
	var out []*OpRec
	for _, r := range ops {
		if r.Ret != 0 && r.Ret < at {
			out = append(out, r)
		}
	}
	return out
}

func fmtHV(m map[uint64]int64) map[float64]int64 {
	out := map[float64]int64{}
	for k, v := range m {
		out[f64from(k)] = v
	}
	return out
}
