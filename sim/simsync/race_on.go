//go:build race

package simsync

import (
	"runtime"
	"unsafe"
)

func raceAcquire(p unsafe.Pointer)      { runtime.RaceAcquire(p) }
func raceReleaseMerge(p unsafe.Pointer) { runtime.RaceReleaseMerge(p) }
