// Package simatomic has the API of sync/atomic; every operation is a
// scheduling point of the simulation and then performs the real atomic.
package simatomic

import (
	"sync/atomic"
	"unsafe"

	"verifsim/simrt"
)

func pt(p unsafe.Pointer) { simrt.Point(simrt.OpAtomic, p) }

// Value is atomic.Value with scheduling points.
type Value struct{ v atomic.Value }

func (v *Value) Load() interface{}              { pt(unsafe.Pointer(v)); return v.v.Load() }
func (v *Value) Store(x interface{})            { pt(unsafe.Pointer(v)); v.v.Store(x) }
func (v *Value) Swap(x interface{}) interface{} { pt(unsafe.Pointer(v)); return v.v.Swap(x) }
func (v *Value) CompareAndSwap(o, n interface{}) bool {
	pt(unsafe.Pointer(v))
	return v.v.CompareAndSwap(o, n)
}

// Bool is atomic.Bool with scheduling points.
type Bool struct{ v atomic.Bool }

func (b *Bool) Load() bool                    { pt(unsafe.Pointer(b)); return b.v.Load() }
func (b *Bool) Store(x bool)                  { pt(unsafe.Pointer(b)); b.v.Store(x) }
func (b *Bool) Swap(x bool) bool              { pt(unsafe.Pointer(b)); return b.v.Swap(x) }
func (b *Bool) CompareAndSwap(o, n bool) bool { pt(unsafe.Pointer(b)); return b.v.CompareAndSwap(o, n) }

// Pointer is atomic.Pointer with scheduling points.
type Pointer[T any] struct{ v atomic.Pointer[T] }

func (p *Pointer[T]) Load() *T     { pt(unsafe.Pointer(p)); return p.v.Load() }
func (p *Pointer[T]) Store(x *T)   { pt(unsafe.Pointer(p)); p.v.Store(x) }
func (p *Pointer[T]) Swap(x *T) *T { pt(unsafe.Pointer(p)); return p.v.Swap(x) }
func (p *Pointer[T]) CompareAndSwap(o, n *T) bool {
	pt(unsafe.Pointer(p))
	return p.v.CompareAndSwap(o, n)
}

func LoadPointer(addr *unsafe.Pointer) unsafe.Pointer {
	pt(unsafe.Pointer(addr))
	return atomic.LoadPointer(addr)
}
func StorePointer(addr *unsafe.Pointer, v unsafe.Pointer) {
	pt(unsafe.Pointer(addr))
	atomic.StorePointer(addr, v)
}
func SwapPointer(addr *unsafe.Pointer, v unsafe.Pointer) unsafe.Pointer {
	pt(unsafe.Pointer(addr))
	return atomic.SwapPointer(addr, v)
}
func CompareAndSwapPointer(addr *unsafe.Pointer, o, n unsafe.Pointer) bool {
	pt(unsafe.Pointer(addr))
	return atomic.CompareAndSwapPointer(addr, o, n)
}

func LoadInt32(addr *int32) int32         { pt(unsafe.Pointer(addr)); return atomic.LoadInt32(addr) }
func StoreInt32(addr *int32, v int32)     { pt(unsafe.Pointer(addr)); atomic.StoreInt32(addr, v) }
func AddInt32(addr *int32, d int32) int32 { pt(unsafe.Pointer(addr)); return atomic.AddInt32(addr, d) }
func SwapInt32(addr *int32, v int32) int32 {
	pt(unsafe.Pointer(addr))
	return atomic.SwapInt32(addr, v)
}
func CompareAndSwapInt32(addr *int32, o, n int32) bool {
	pt(unsafe.Pointer(addr))
	return atomic.CompareAndSwapInt32(addr, o, n)
}
func AndInt32(addr *int32, m int32) int32 { pt(unsafe.Pointer(addr)); return atomic.AndInt32(addr, m) }
func OrInt32(addr *int32, m int32) int32  { pt(unsafe.Pointer(addr)); return atomic.OrInt32(addr, m) }

// Int32 is atomic.Int32 with scheduling points.
type Int32 struct{ v atomic.Int32 }

func (x *Int32) Load() int32        { pt(unsafe.Pointer(x)); return x.v.Load() }
func (x *Int32) Store(v int32)      { pt(unsafe.Pointer(x)); x.v.Store(v) }
func (x *Int32) Add(d int32) int32  { pt(unsafe.Pointer(x)); return x.v.Add(d) }
func (x *Int32) Swap(v int32) int32 { pt(unsafe.Pointer(x)); return x.v.Swap(v) }
func (x *Int32) CompareAndSwap(o, n int32) bool {
	pt(unsafe.Pointer(x))
	return x.v.CompareAndSwap(o, n)
}
func (x *Int32) And(m int32) int32 { pt(unsafe.Pointer(x)); return x.v.And(m) }
func (x *Int32) Or(m int32) int32  { pt(unsafe.Pointer(x)); return x.v.Or(m) }

func LoadInt64(addr *int64) int64         { pt(unsafe.Pointer(addr)); return atomic.LoadInt64(addr) }
func StoreInt64(addr *int64, v int64)     { pt(unsafe.Pointer(addr)); atomic.StoreInt64(addr, v) }
func AddInt64(addr *int64, d int64) int64 { pt(unsafe.Pointer(addr)); return atomic.AddInt64(addr, d) }
func SwapInt64(addr *int64, v int64) int64 {
	pt(unsafe.Pointer(addr))
	return atomic.SwapInt64(addr, v)
}
func CompareAndSwapInt64(addr *int64, o, n int64) bool {
	pt(unsafe.Pointer(addr))
	return atomic.CompareAndSwapInt64(addr, o, n)
}
func AndInt64(addr *int64, m int64) int64 { pt(unsafe.Pointer(addr)); return atomic.AndInt64(addr, m) }
func OrInt64(addr *int64, m int64) int64  { pt(unsafe.Pointer(addr)); return atomic.OrInt64(addr, m) }

// Int64 is atomic.Int64 with scheduling points.
type Int64 struct{ v atomic.Int64 }

func (x *Int64) Load() int64        { pt(unsafe.Pointer(x)); return x.v.Load() }
func (x *Int64) Store(v int64)      { pt(unsafe.Pointer(x)); x.v.Store(v) }
func (x *Int64) Add(d int64) int64  { pt(unsafe.Pointer(x)); return x.v.Add(d) }
func (x *Int64) Swap(v int64) int64 { pt(unsafe.Pointer(x)); return x.v.Swap(v) }
func (x *Int64) CompareAndSwap(o, n int64) bool {
	pt(unsafe.Pointer(x))
	return x.v.CompareAndSwap(o, n)
}
func (x *Int64) And(m int64) int64 { pt(unsafe.Pointer(x)); return x.v.And(m) }
func (x *Int64) Or(m int64) int64  { pt(unsafe.Pointer(x)); return x.v.Or(m) }

func LoadUint32(addr *uint32) uint32     { pt(unsafe.Pointer(addr)); return atomic.LoadUint32(addr) }
func StoreUint32(addr *uint32, v uint32) { pt(unsafe.Pointer(addr)); atomic.StoreUint32(addr, v) }
func AddUint32(addr *uint32, d uint32) uint32 {
	pt(unsafe.Pointer(addr))
	return atomic.AddUint32(addr, d)
}
func SwapUint32(addr *uint32, v uint32) uint32 {
	pt(unsafe.Pointer(addr))
	return atomic.SwapUint32(addr, v)
}
func CompareAndSwapUint32(addr *uint32, o, n uint32) bool {
	pt(unsafe.Pointer(addr))
	return atomic.CompareAndSwapUint32(addr, o, n)
}
func AndUint32(addr *uint32, m uint32) uint32 {
	pt(unsafe.Pointer(addr))
	return atomic.AndUint32(addr, m)
}
func OrUint32(addr *uint32, m uint32) uint32 {
	pt(unsafe.Pointer(addr))
	return atomic.OrUint32(addr, m)
}

// Uint32 is atomic.Uint32 with scheduling points.
type Uint32 struct{ v atomic.Uint32 }

func (x *Uint32) Load() uint32         { pt(unsafe.Pointer(x)); return x.v.Load() }
func (x *Uint32) Store(v uint32)       { pt(unsafe.Pointer(x)); x.v.Store(v) }
func (x *Uint32) Add(d uint32) uint32  { pt(unsafe.Pointer(x)); return x.v.Add(d) }
func (x *Uint32) Swap(v uint32) uint32 { pt(unsafe.Pointer(x)); return x.v.Swap(v) }
func (x *Uint32) CompareAndSwap(o, n uint32) bool {
	pt(unsafe.Pointer(x))
	return x.v.CompareAndSwap(o, n)
}
func (x *Uint32) And(m uint32) uint32 { pt(unsafe.Pointer(x)); return x.v.And(m) }
func (x *Uint32) Or(m uint32) uint32  { pt(unsafe.Pointer(x)); return x.v.Or(m) }

func LoadUint64(addr *uint64) uint64     { pt(unsafe.Pointer(addr)); return atomic.LoadUint64(addr) }
func StoreUint64(addr *uint64, v uint64) { pt(unsafe.Pointer(addr)); atomic.StoreUint64(addr, v) }
func AddUint64(addr *uint64, d uint64) uint64 {
	pt(unsafe.Pointer(addr))
	return atomic.AddUint64(addr, d)
}
func SwapUint64(addr *uint64, v uint64) uint64 {
	pt(unsafe.Pointer(addr))
	return atomic.SwapUint64(addr, v)
}
func CompareAndSwapUint64(addr *uint64, o, n uint64) bool {
	pt(unsafe.Pointer(addr))
	return atomic.CompareAndSwapUint64(addr, o, n)
}
func AndUint64(addr *uint64, m uint64) uint64 {
	pt(unsafe.Pointer(addr))
	return atomic.AndUint64(addr, m)
}
func OrUint64(addr *uint64, m uint64) uint64 {
	pt(unsafe.Pointer(addr))
	return atomic.OrUint64(addr, m)
}

// Uint64 is atomic.Uint64 with scheduling points.
type Uint64 struct{ v atomic.Uint64 }

func (x *Uint64) Load() uint64         { pt(unsafe.Pointer(x)); return x.v.Load() }
func (x *Uint64) Store(v uint64)       { pt(unsafe.Pointer(x)); x.v.Store(v) }
func (x *Uint64) Add(d uint64) uint64  { pt(unsafe.Pointer(x)); return x.v.Add(d) }
func (x *Uint64) Swap(v uint64) uint64 { pt(unsafe.Pointer(x)); return x.v.Swap(v) }
func (x *Uint64) CompareAndSwap(o, n uint64) bool {
	pt(unsafe.Pointer(x))
	return x.v.CompareAndSwap(o, n)
}
func (x *Uint64) And(m uint64) uint64 { pt(unsafe.Pointer(x)); return x.v.And(m) }
func (x *Uint64) Or(m uint64) uint64  { pt(unsafe.Pointer(x)); return x.v.Or(m) }

func LoadUintptr(addr *uintptr) uintptr     { pt(unsafe.Pointer(addr)); return atomic.LoadUintptr(addr) }
func StoreUintptr(addr *uintptr, v uintptr) { pt(unsafe.Pointer(addr)); atomic.StoreUintptr(addr, v) }
func AddUintptr(addr *uintptr, d uintptr) uintptr {
	pt(unsafe.Pointer(addr))
	return atomic.AddUintptr(addr, d)
}
func SwapUintptr(addr *uintptr, v uintptr) uintptr {
	pt(unsafe.Pointer(addr))
	return atomic.SwapUintptr(addr, v)
}
func CompareAndSwapUintptr(addr *uintptr, o, n uintptr) bool {
	pt(unsafe.Pointer(addr))
	return atomic.CompareAndSwapUintptr(addr, o, n)
}
func AndUintptr(addr *uintptr, m uintptr) uintptr {
	pt(unsafe.Pointer(addr))
	return atomic.AndUintptr(addr, m)
}
func OrUintptr(addr *uintptr, m uintptr) uintptr {
	pt(unsafe.Pointer(addr))
	return atomic.OrUintptr(addr, m)
}

// Uintptr is atomic.Uintptr with scheduling points.
type Uintptr struct{ v atomic.Uintptr }

func (x *Uintptr) Load() uintptr          { pt(unsafe.Pointer(x)); return x.v.Load() }
func (x *Uintptr) Store(v uintptr)        { pt(unsafe.Pointer(x)); x.v.Store(v) }
func (x *Uintptr) Add(d uintptr) uintptr  { pt(unsafe.Pointer(x)); return x.v.Add(d) }
func (x *Uintptr) Swap(v uintptr) uintptr { pt(unsafe.Pointer(x)); return x.v.Swap(v) }
func (x *Uintptr) CompareAndSwap(o, n uintptr) bool {
	pt(unsafe.Pointer(x))
	return x.v.CompareAndSwap(o, n)
}
func (x *Uintptr) And(m uintptr) uintptr { pt(unsafe.Pointer(x)); return x.v.And(m) }
func (x *Uintptr) Or(m uintptr) uintptr  { pt(unsafe.Pointer(x)); return x.v.Or(m) }
