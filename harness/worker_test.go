package harness

import (
	"crypto/sha256"
	"encoding/binary"
	"encoding/hex"
	"encoding/json"
	"fmt"
	"os"
	"runtime"
	"runtime/debug"
	"sort"
	"strconv"
	"strings"
	"testing"
	"time"

	"verifsim/simrt"
)

func envInt(name string, def int) int {
	if v := os.Getenv(name); v != "" {
		if n, err := strconv.Atoi(v); err == nil {
			return n
		}
	}
	return def
}

func envU64(name string, def uint64) uint64 {
	if v := os.Getenv(name); v != "" {
		if n, err := strconv.ParseUint(v, 10, 64); err == nil {
			return n
		}
		if n, err := strconv.ParseInt(v, 10, 64); err == nil {
			return uint64(n)
		}
	}
	return def
}

func propHash(id string) uint64 {
	h := sha256.Sum256([]byte(id))
	return binary.LittleEndian.Uint64(h[:8])
}

func runSeed(base uint64, prop string, idx int) uint64 {
	return simrt.SplitMix(base, propHash(prop), uint64(idx))
}

func progHash(p *Program) string {
	b, _ := json.Marshal(p)
	h := sha256.Sum256(b)
	return hex.EncodeToString(h[:8])
}

// ReplayFile is what a violation is reported as.
type ReplayFile struct {
	Property   string      `json:"property"`
	BaseSeed   uint64      `json:"base_seed"`
	RunIndex   int         `json:"run_index"`
	RunSeed    uint64      `json:"run_seed"`
	Tier       string      `json:"tier"`
	Class      string      `json:"violation_class"`
	Violation  []string    `json:"violation"`
	Program    *Program    `json:"program"`
	Tape       []uint32    `json:"tape"`
	Minimised  bool        `json:"minimised"`
	OrigOps    int         `json:"original_ops"`
	OrigTape   int         `json:"original_tape_len"`
	Trace      []string    `json:"trace,omitempty"`
	History    []string    `json:"history,omitempty"`
	Stats      simrt.Stats `json:"stats"`
	Known      string      `json:"known_finding,omitempty"`
	Race       bool        `json:"race,omitempty"` // found by (and replayable only with) the -race build
	ShrinkRuns int         `json:"shrink_runs"`
}

// WorkerOut is what one worker process reports to the driver.
type WorkerOut struct {
	Worker      int               `json:"worker"`
	Runs        int               `json:"runs"`
	Steps       int64             `json:"steps"`
	SimNs       int64             `json:"sim_ns"`
	WallMs      int64             `json:"wall_ms"`
	Preempt     int64             `json:"preemptions"`
	Truncated   int               `json:"truncated"`
	Leaked      int               `json:"leaked"`
	Interesting int               `json:"interesting"`
	Distinct    []string          `json:"distinct"` // hashes of (program, signature) of interesting runs
	Faults      map[string]int64  `json:"faults"`
	Probes      map[string]int64  `json:"probes"`
	Strategies  map[string]int    `json:"strategies"`
	Stacks      map[string]int    `json:"stacks"`
	Samples     []json.RawMessage `json:"samples"`
	Violation   *ReplayFile       `json:"violation,omitempty"`
	Known       []string          `json:"known,omitempty"`
	Infra       string            `json:"infra,omitempty"`
	Hashes      []string          `json:"hashes,omitempty"`
}

func addStats(o *WorkerOut, res *RunResult) {
	o.Runs++
	o.Steps += int64(res.Stats.Steps)
	o.SimNs += int64(res.Stats.SimTime)
	o.Preempt += int64(res.Stats.Preemptions)
	if res.Stats.Truncated {
		o.Truncated++
	}
	o.Leaked += res.Stats.Leaked
	f := o.Faults
	f["F1_slow_reporter_call"] += int64(res.Probes.SlowCalls)
	f["F2_preemption"] += int64(res.Stats.Preemptions)
	f["F3_clock_preempt"] += int64(res.Stats.ClockPreempt)
	f["F9_pool_drop"] += int64(res.Stats.PoolDrops)
	f["F2_long_preemption_stalled_task"] += int64(res.Stats.Stalls)
	// faults that are part of the generated program: counted when the run executed them
	for _, t := range res.Prog.Tasks {
		for _, op := range t {
			switch op.K {
			case "closeroot", "m3close":
				f["F4_close_injected_by_a_task"]++
			case "tabandon":
				f["F6_message_abandoned_op"]++
			}
		}
	}
	if res.Prog.Cfg.Faults.CloseErr && res.Prog.Cfg.Faults.HasCloser {
		f["F8_reporter_close_error"]++
	}
	if res.Prog.Cfg.Faults.PanicCB {
		f["F8_panicking_callback_configured"]++
	}
	if res.Prog.Cfg.CPUs == 1 {
		f["F10_single_registry_shard"]++
	}
	if m := res.Prog.Cfg.M3; m != nil && m.MaxQueue > 0 && m.MaxQueue <= 4 {
		f["F7_tiny_queue_configured"]++
	}
	f["F11_map_order_permuted"] += int64(res.Stats.MapPermuted)
	for _, w := range res.Prog.Cfg.WallSteps {
		if time.Duration(w[0]) <= res.Stats.SimTime {
			f["F12_wall_clock_step"]++
		}
	}
	p := o.Probes
	p["overlap_passes"] += int64(res.Probes.OverlapPasses)
	p["contention_switch"] += int64(res.Stats.ContentionHit)
	p["select_multi_ready"] += int64(res.Stats.SelectMulti)
	p["clock_advances"] += int64(res.Stats.ClockAdvances)
	p["adopted_goroutines"] += int64(res.Stats.Adopted)
	p["killed_tasks"] += int64(res.Stats.Killed)
	if res.Inconclusive {
		p["inconclusive_runs_cut_off_at_the_hard_cap"]++
	} else {
		p["inconclusive_runs_cut_off_at_the_hard_cap"] += 0
	}
	p["map_ranges_with_indistinguishable_keys"] += int64(res.Stats.AmbiguousRanges)
	for k, v := range res.Probes.Custom {
		if strings.HasPrefix(k, "F") && len(k) > 2 && k[1] >= '0' && k[1] <= '9' {
			f[k] += int64(v)
		} else {
			p[k] += int64(v)
		}
	}
	o.Strategies[simrt.Strategy(res.Prog.Cfg.Strategy).String()]++
	o.Stacks[res.Prog.Cfg.Stack]++
}

func sameClass(vs []Violation, class string) bool {
	for _, v := range vs {
		if v.Class == class {
			return true
		}
	}
	return false
}

func violationStrings(vs []Violation) []string {
	var out []string
	for i, v := range vs {
		if i >= 6 {
			out = append(out, fmt.Sprintf("... and %d more", len(vs)-i))
			break
		}
		out = append(out, "["+v.Class+"] "+v.Msg)
	}
	return out
}

func traceStrings(tr []simrt.TraceEntry) []string {
	var out []string
	for _, e := range tr {
		if e.Task < 0 {
			out = append(out, fmt.Sprintf("step %d t=%v clock: %s", e.Step, e.Now, e.Note))
		} else {
			out = append(out, fmt.Sprintf("step %d t=%v task %d %s obj#%d", e.Step, e.Now, e.Task, e.Kind, e.Obj))
		}
	}
	return out
}

// TestWorker is the entry point of a search worker process.
func TestWorker(t *testing.T) {
	propID := os.Getenv("VERIF_PROP")
	if propID == "" {
		t.Skip("VERIF_PROP not set")
	}
	prop := properties[propID]
	out := &WorkerOut{Worker: envInt("VERIF_WORKER", 0), Faults: map[string]int64{}, Probes: map[string]int64{}, Strategies: map[string]int{}, Stacks: map[string]int{}}
	outPath := os.Getenv("VERIF_OUT")
	defer func() {
		if r := recover(); r != nil {
			out.Infra = fmt.Sprintf("harness panic: %v\n%s", r, debug.Stack())
		}
		cr := curRun
		if cr == nil && t.Failed() {
			// ended while a run that had already been reported on was being shrunk
			// (the run also violated one of the property's own clauses)
			cr = lastRun
		}
		if cr != nil && simrt.RaceBuild && out.Infra == "" && out.Violation == nil {
			// the test was ended by the testing package because the race detector
			// reported something during this run
			raceVerdict(out, cr)
		}
		if outPath != "" {
			b, _ := json.Marshal(out)
			os.WriteFile(outPath, b, 0o644)
		}
	}()
	if prop == nil {
		out.Infra = "unknown property " + propID
		return
	}
	// Stall watchdog (real time, outside every bubble): a run that blocks for real
	// - something the simulator is built to make impossible - must cost seconds,
	// not the driver's ten-minute limit, and is an infrastructure error. A run
	// that is merely slow (the scheduler keeps taking steps) is not stalled.
	stallS := envInt("VERIF_STALL_S", 120)
	go func() {
		last, since := int64(-1), time.Now()
		for {
			time.Sleep(2 * time.Second)
			if p := Progress.Load() + simrt.StepsTotal.Load(); p != last {
				last, since = p, time.Now()
				continue
			}
			if time.Since(since) > time.Duration(stallS)*time.Second {
				buf := make([]byte, 1<<20)
				buf = buf[:runtime.Stack(buf, true)]
				if len(buf) > 20000 {
					buf = buf[:20000]
				}
				where := ""
				if cr := curRun; cr != nil {
					where = fmt.Sprintf(" in run %d (seed %d)", cr.idx, cr.seed)
				}
				o := &WorkerOut{Worker: out.Worker, Infra: fmt.Sprintf("worker stalled for %d s of real time%s: a goroutine is blocked outside the simulator's control\n%s", stallS, where, buf)}
				if outPath != "" {
					b, _ := json.Marshal(o)
					os.WriteFile(outPath, b, 0o644)
				}
				os.Exit(2)
			}
		}
	}()
	if rf := os.Getenv("VERIF_REPLAY"); rf != "" {
		replayMain(t, prop, rf, out)
		return
	}
	base := envU64("VERIF_SEED", 1)
	tier := os.Getenv("VERIF_TIER")
	if tier == "" {
		tier = "quick"
	}
	nw := envInt("VERIF_NWORKERS", 1)
	budget := time.Duration(envInt("VERIF_BUDGET_MS", 5000)) * time.Millisecond
	maxRuns := envInt("VERIF_MAXRUNS", 1<<30)
	shrinkBudget := time.Duration(envInt("VERIF_SHRINK_MS", 45000)) * time.Millisecond
	hashMode := os.Getenv("VERIF_MODE") == "hash"
	known := loadKnown(propID)
	var borrow []string
	if v := os.Getenv("VERIF_GEN_FROM"); v != "" && simrt.RaceBuild {
		borrow = strings.Split(v, ",")
	}
	start := time.Now()
	distinct := map[string]bool{}
	for k := 0; k < maxRuns; k++ {
		if !hashMode && time.Since(start) > budget {
			break
		}
		idx := out.Worker + k*nw
		seed := runSeed(base, propID, idx)
		g := &Gen{R: simrt.NewRand(seed)}
		// Race slice only: the "without data races" clause is about the whole API,
		// so part of the runs borrow the workloads of sibling properties (Close and
		// re-request cycles, snapshots, ...). Only a race report counts in such a
		// run; what the sibling's oracle says is that property's own business.
		gp := prop
		if len(borrow) > 0 {
			if b := properties[borrow[idx%len(borrow)]]; b != nil {
				gp = b
			}
		}
		prog := gp.Gen(g, tier)
		prog.Prop = gp.ID
		spice(g, prog)
		ch := simrt.NewChooser(seed ^ 0x5bd1e995)
		curRun = &runCtx{prop: propID, prog: prog, ch: ch, idx: idx, seed: seed, base: base, tier: tier}
		lastRun = curRun
		res := RunOne(t, gp, prog, ch, hashMode)
		curRun = nil
		if gp != prop {
			res.Violations = nil
			res.Interest = res.Stats.Preemptions > 0
			out.Probes["race_runs_on_borrowed_workloads"]++
		}
		if res.Infra != "" {
			out.Infra = fmt.Sprintf("run %d (seed %d): %s", idx, seed, res.Infra)
			return
		}
		addStats(out, res)
		if hashMode {
			h := sha256.New()
			for _, l := range res.LogDump {
				h.Write([]byte(l))
			}
			for _, x := range res.Tape {
				var b [4]byte
				binary.LittleEndian.PutUint32(b[:], x)
				h.Write(b[:])
			}
			// the verdict as a set: oracles may list their findings in map order,
			// which is not part of the simulated execution
			classes := map[string]bool{}
			for _, v := range res.Violations {
				classes[v.Class] = true
			}
			sorted := make([]string, 0, len(classes))
			for c := range classes {
				sorted = append(sorted, c)
			}
			sort.Strings(sorted)
			for _, c := range sorted {
				h.Write([]byte(c))
			}
			out.Hashes = append(out.Hashes, fmt.Sprintf("%d %x", idx, h.Sum(nil)[:8]))
			if dir := os.Getenv("VERIF_DUMP_ALL"); dir != "" {
				f, _ := os.OpenFile(fmt.Sprintf("%s/%d.txt", dir, os.Getpid()), os.O_APPEND|os.O_CREATE|os.O_WRONLY, 0o644)
				fmt.Fprintf(f, "=== RUN %d\n%s\n%s\n", idx, strings.Join(res.LogDump, "\n"), strings.Join(traceStrings(res.Trace), "\n"))
				f.Close()
			}
			if d := os.Getenv("VERIF_DUMP_RUN"); d != "" && d == strconv.Itoa(idx) {
				// debugging aid for the determinism self-test: the rendered history of one run
				os.WriteFile(os.Getenv("VERIF_DUMP_FILE"), []byte(strings.Join(res.LogDump, "\n")+"\n"+strings.Join(traceStrings(res.Trace), "\n")), 0o644)
			}
			continue
		}
		if res.Interest {
			out.Interesting++
			key := fmt.Sprintf("%s/%x", progHash(prog), res.Sig)
			if !distinct[key] {
				distinct[key] = true
				out.Distinct = append(out.Distinct, key)
			}
		}
		if len(out.Samples) < 2 && (res.Interest || k == 0) {
			s, _ := json.Marshal(map[string]interface{}{"run_index": idx, "run_seed": seed, "program": prog, "steps": res.Stats.Steps, "preemptions": res.Stats.Preemptions, "sim_time_ns": int64(res.Stats.SimTime), "interesting": res.Interest, "tape_len": len(res.Tape)})
			out.Samples = append(out.Samples, s)
		}
		if len(res.Violations) > 0 {
			// a violation fully explained by a listed known finding is recorded
			// without minimisation and the search goes on
			all := make([]string, 0, len(res.Violations))
			for _, v := range res.Violations {
				all = append(all, "["+v.Class+"] "+v.Msg)
			}
			if kf := known.match(&ReplayFile{Violation: all}); kf != "" {
				found := false
				for _, s := range out.Known {
					found = found || s == kf
				}
				if !found {
					out.Known = append(out.Known, kf)
				}
				continue
			}
			rf := minimise(t, prop, res, shrinkBudget)
			rf.Property, rf.BaseSeed, rf.RunIndex, rf.RunSeed, rf.Tier = propID, base, idx, seed, tier
			if kf := known.match(rf); kf != "" {
				rf.Known = kf
				found := false
				for _, s := range out.Known {
					found = found || s == kf
				}
				if !found {
					out.Known = append(out.Known, kf)
				}
				continue
			}
			out.Violation = rf
			break
		}
	}
	out.WallMs = time.Since(start).Milliseconds()
	sort.Strings(out.Distinct)
}

type runCtx struct {
	prop string
	prog *Program
	ch   *simrt.Chooser
	idx  int
	seed uint64
	base uint64
	tier string
}

var curRun *runCtx

// lastRun is the run most recently started by the search loop (curRun is nil
// while its result is being processed).
var lastRun *runCtx

// raceVerdict turns the race detector's report for the run that was in
// progress into a violation (a frame of the code under test is involved) or an
// infrastructure error (harness or shim code only).
func raceVerdict(out *WorkerOut, cr *runCtx) {
	text := ""
	if prefix := os.Getenv("VERIF_RACE_LOG"); prefix != "" {
		if data, err := os.ReadFile(fmt.Sprintf("%s.%d", prefix, os.Getpid())); err == nil {
			text = string(data)
		}
	}
	if !strings.Contains(text, "DATA RACE") {
		out.Infra = fmt.Sprintf("run %d ended abnormally under the race build without a race report", cr.idx)
		return
	}
	// keep the last report
	if i := strings.LastIndex(text, "WARNING: DATA RACE"); i >= 0 {
		text = text[i:]
	}
	inTally := false
	for _, line := range strings.Split(text, "\n") {
		l := strings.TrimSpace(line)
		if strings.HasPrefix(l, "github.com/uber-go/tally/v4") && strings.Contains(l, "(") {
			inTally = true
		}
	}
	if len(text) > 3500 {
		text = text[:3500]
	}
	if !inTally {
		out.Infra = "race report without a frame of the code under test (harness / shim bookkeeping):\n" + text
		return
	}
	out.Violation = &ReplayFile{Property: cr.prop, BaseSeed: cr.base, RunIndex: cr.idx, RunSeed: cr.seed, Tier: cr.tier,
		Class: "data-race", Violation: []string{"[data-race] the race detector reported a data race involving tally code during this (serialised, replayable) run:\n" + text},
		Program: cr.prog, Tape: append([]uint32(nil), cr.ch.Tape...), Race: true, OrigOps: cr.prog.NumOps(), OrigTape: len(cr.ch.Tape)}
}

func replayMain(t *testing.T, prop *Property, path string, out *WorkerOut) {
	data, err := os.ReadFile(path)
	if err != nil {
		out.Infra = err.Error()
		return
	}
	var rf ReplayFile
	if err := json.Unmarshal(data, &rf); err != nil {
		out.Infra = "bad replay file: " + err.Error()
		return
	}
	rch := simrt.NewReplay(rf.Tape)
	curRun = &runCtx{prop: rf.Property, prog: rf.Program, ch: rch, idx: rf.RunIndex, seed: rf.RunSeed, base: rf.BaseSeed, tier: rf.Tier}
	rp := prop
	if b := properties[rf.Program.Prop]; rf.Race && b != nil {
		rp = b // a race found on a borrowed workload: run it as what it is
	}
	res := RunOne(t, rp, rf.Program, rch, true)
	curRun = nil
	if f := os.Getenv("VERIF_REPLAY_DUMP"); f != "" {
		os.WriteFile(f, []byte(strings.Join(res.LogDump, "\n")+"\n"+strings.Join(violationStrings(res.Violations), "\n")+"\ninfra="+res.Infra+"\n"), 0o644) // the history of the replayed run, for a human
	}
	if rp != prop {
		res.Violations = nil
	}
	if res.Infra != "" {
		out.Infra = res.Infra
		return
	}
	addStats(out, res)
	if len(res.Violations) > 0 {
		nrf := rf
		nrf.Violation = violationStrings(res.Violations)
		nrf.Class = res.Violations[0].Class
		nrf.Trace = traceStrings(res.Trace)
		nrf.History = res.LogDump
		nrf.Stats = res.Stats
		out.Violation = &nrf
	}
}

// minimise shrinks program and tape while a violation of the same class persists.
func minimise(t *testing.T, prop *Property, res *RunResult, budget time.Duration) *ReplayFile {
	class := res.Violations[0].Class
	best := res
	bestProg := res.Prog
	bestTape := append([]uint32(nil), res.Tape...)
	origOps, origTape := res.Prog.NumOps(), len(res.Tape)
	deadline := time.Now().Add(budget)
	runs := 0
	rng := simrt.NewRand(12345)

	try := func(p *Program, tape []uint32) *RunResult {
		runs++
		r := RunOne(t, prop, p, simrt.NewReplay(tape), false)
		if r.Infra == "" && sameClass(r.Violations, class) {
			return r
		}
		return nil
	}
	trySearch := func(p *Program, tape []uint32, n int) *RunResult {
		if r := try(p, tape); r != nil {
			return r
		}
		for i := 0; i < n && time.Now().Before(deadline); i++ {
			runs++
			r := RunOne(t, prop, p, simrt.NewChooser(rng.Uint64()), false)
			if r.Infra == "" && sameClass(r.Violations, class) {
				return r
			}
		}
		return nil
	}
	accept := func(p *Program, r *RunResult) {
		best, bestProg = r, p
		bestTape = trimTape(r.Tape)
	}

	for pass := 0; pass < 6 && time.Now().Before(deadline); pass++ {
		improved := false
		// 1. program: drop tasks, ops, simplify configuration and values; after every
		// accepted reduction the candidates are derived afresh from the new best
		for time.Now().Before(deadline) {
			progress := false
			for _, cand := range programCandidates(bestProg) {
				if !time.Now().Before(deadline) {
					break
				}
				if r := trySearch(cand, bestTape, 8); r != nil {
					accept(cand, r)
					improved, progress = true, true
					break
				}
			}
			if !progress {
				break
			}
		}
		// 2. tape: truncate, zero blocks, delete blocks
		for size := len(bestTape) / 2; size >= 1 && time.Now().Before(deadline); size /= 2 {
			for off := 0; off < len(bestTape) && time.Now().Before(deadline); {
				if off+size > len(bestTape) {
					break
				}
				allZero := true
				for _, x := range bestTape[off : off+size] {
					if x != 0 {
						allZero = false
					}
				}
				// delete the block
				cand := append(append([]uint32(nil), bestTape[:off]...), bestTape[off+size:]...)
				if r := try(bestProg, cand); r != nil {
					best = r
					bestTape = trimTape(cand)
					improved = true
					continue
				}
				if !allZero {
					cand = append([]uint32(nil), bestTape...)
					for i := off; i < off+size; i++ {
						cand[i] = 0
					}
					if r := try(bestProg, cand); r != nil {
						best = r
						bestTape = trimTape(cand)
						improved = true
					}
				}
				off += size
			}
		}
		if !improved {
			break
		}
	}
	// final confirmation with a trace, in replay mode
	final := RunOne(t, prop, bestProg, simrt.NewReplay(bestTape), true)
	rf := &ReplayFile{Program: bestProg, Tape: bestTape, Class: class, Minimised: true, OrigOps: origOps, OrigTape: origTape, ShrinkRuns: runs}
	if final.Infra != "" || !sameClass(final.Violations, class) {
		// should not happen: fall back to the original failing run
		rf.Program, rf.Tape, rf.Minimised = res.Prog, res.Tape, false
		final = RunOne(t, prop, res.Prog, simrt.NewReplay(res.Tape), true)
		if !sameClass(final.Violations, class) {
			rf.Violation = append(violationStrings(res.Violations), fmt.Sprintf("WARNING: replay of the recorded tape did not reproduce the violation (simulator nondeterminism); replay gave infra=%q violations=%v overrun=%d", final.Infra, violationStrings(final.Violations), final.Overrun))
			rf.Class = "nondeterministic"
			return rf
		}
	}
	_ = best
	rf.Violation = violationStrings(final.Violations)
	rf.Trace = traceStrings(final.Trace)
	rf.History = final.LogDump
	rf.Stats = final.Stats
	return rf
}

func trimTape(t []uint32) []uint32 {
	n := len(t)
	for n > 0 && t[n-1] == 0 {
		n--
	}
	return append([]uint32(nil), t[:n]...)
}

func cloneProg(p *Program) *Program {
	b, _ := json.Marshal(p)
	var q Program
	json.Unmarshal(b, &q)
	return &q
}

func programCandidates(p *Program) []*Program {
	var out []*Program
	// drop a whole task
	for i := range p.Tasks {
		q := cloneProg(p)
		q.Tasks = append(q.Tasks[:i], q.Tasks[i+1:]...)
		out = append(out, q)
	}
	// drop the second half / single ops of tasks
	for i := range p.Tasks {
		n := len(p.Tasks[i])
		if n > 3 {
			q := cloneProg(p)
			q.Tasks[i] = q.Tasks[i][:n/2]
			out = append(out, q)
			q = cloneProg(p)
			q.Tasks[i] = q.Tasks[i][n/2:]
			out = append(out, q)
		}
		for j := n - 1; j >= 0; j-- {
			q := cloneProg(p)
			q.Tasks[i] = append(q.Tasks[i][:j], q.Tasks[i][j+1:]...)
			out = append(out, q)
		}
	}
	for j := len(p.Prelude) - 1; j >= 0; j-- {
		q := cloneProg(p)
		q.Prelude = append(q.Prelude[:j], q.Prelude[j+1:]...)
		out = append(out, q)
	}
	for j := len(p.Epilogue) - 1; j >= 0; j-- {
		q := cloneProg(p)
		q.Epilogue = append(q.Epilogue[:j], q.Epilogue[j+1:]...)
		out = append(out, q)
	}
	// configuration
	mod := func(f func(c *Config) bool) {
		q := cloneProg(p)
		if f(&q.Cfg) {
			out = append(out, q)
		}
	}
	mod(func(c *Config) bool { ch := c.Faults.SlowPct != 0; c.Faults.SlowPct = 0; return ch })
	mod(func(c *Config) bool { ch := c.CPUs != 1; c.CPUs = 1; return ch })
	mod(func(c *Config) bool { ch := !c.OmitCard; c.OmitCard = true; return ch })
	mod(func(c *Config) bool { ch := c.Faults.HasCloser; c.Faults.HasCloser = false; return ch })
	mod(func(c *Config) bool { ch := c.PoolDropPct != 0; c.PoolDropPct = 0; return ch })
	mod(func(c *Config) bool { ch := c.PStall != 0; c.PStall = 0; return ch })
	mod(func(c *Config) bool { ch := c.Sanitize != nil; c.Sanitize = nil; return ch })
	mod(func(c *Config) bool { ch := len(c.RootTags) != 0; c.RootTags = nil; return ch })
	mod(func(c *Config) bool { ch := c.Prefix != ""; c.Prefix = ""; return ch })
	// values
	for i := range p.Tasks {
		for j := range p.Tasks[i] {
			op := p.Tasks[i][j]
			if (op.K == "inc" || op.K == "m3count") && op.I != 1 {
				q := cloneProg(p)
				q.Tasks[i][j].I = 1
				out = append(out, q)
			}
		}
	}
	return out
}
