#!/bin/bash
# sweep.sh <tier> <seed>... : run every claimed check at the given tier for each seed; print one line per run.
tier="$1"; shift
ids=$(python3 -c "import json; print(' '.join(c['property_id'] for c in json.load(open('MANIFEST.json'))['checks']))")
for seed in "$@"; do
  for id in $ids; do
    out=$(VERIF_SEED=$seed ./check $id $tier 2>&1); rc=$?
    echo "seed=$seed $id rc=$rc $(echo "$out" | grep -E "^$id $tier" | tail -1)"
    if [ $rc -ne 0 ]; then echo "$out" | grep -E "^\[|VIOLATION|INFRA|KNOWN" | head -5; fi
  done
done
