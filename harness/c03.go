package harness

import (
	"fmt"
	"math"
	"reflect"

	tally "github.com/uber-go/tally/v4"
)

func init() {
	register(&Property{
		ID:    "C03",
		Gen:   genC03,
		Check: checkC03,
		Interest: func(env *Env) bool {
			return env.Probes.Custom["boundary_samples"] > 0 && env.Probes.Custom["hist_identities_checked"] > 0
		},
	})
	register(&Property{
		ID:    "C20",
		Gen:   genC20,
		Check: checkC20,
		Interest: func(env *Env) bool {
			return env.Probes.Custom["colliding_specs"] > 0 && env.Probes.Custom["hist_identities_checked"] > 1
		},
	})
}

func nextUp(x float64) float64   { return math.Nextafter(x, math.Inf(1)) }
func nextDown(x float64) float64 { return math.Nextafter(x, math.Inf(-1)) }

func genValueSpec(g *Gen) *BucketSpec {
	n := pick(g, 1, 1, 2, 3, 3, 4, 6, 8)
	if g.Bool(3) {
		n = pick(g, g.Range(9, 64), 64, 64, 63, 32, 33) // "1..64 bounds": the ends and the word sizes in between
	}
	pool := []float64{-100, -1, -0.5, 0, 0.5, 1, 1.5, 2, 3, 10, 1e9, -1e9, 1e300, 5e-324, math.Copysign(0, -1)}
	s := &BucketSpec{}
	for i := 0; i < n; i++ {
		v := pool[g.Intn(len(pool))]
		if g.Bool(20) && len(s.Bits) > 0 {
			v = f64from(s.Bits[g.Intn(len(s.Bits))]) // duplicate
		}
		if g.Bool(10) {
			v = float64(g.Intn(2000)-1000) / 8
		}
		s.Bits = append(s.Bits, f64bits(v))
	}
	return s
}

func genDurSpec(g *Gen) *BucketSpec {
	n := pick(g, 1, 1, 2, 3, 3, 4, 6, 8)
	if g.Bool(3) {
		n = pick(g, g.Range(9, 64), 64, 64, 63, 32, 33)
	}
	pool := []int64{-1e9, -1, 0, 1, 1000, 1e6, 5e8, 1e9, 2e9, 60e9, math.MaxInt64 - 1, math.MinInt64 + 1}
	s := &BucketSpec{Dur: true}
	for i := 0; i < n; i++ {
		v := pool[g.Intn(len(pool))]
		if g.Bool(20) && len(s.Durs) > 0 {
			v = s.Durs[g.Intn(len(s.Durs))]
		}
		s.Durs = append(s.Durs, v)
	}
	return s
}

// boundary-biased samples for a spec
func genValueSample(g *Gen, s *BucketSpec) float64 {
	if s != nil && !s.Dur && len(s.Bits) > 0 && g.Bool(65) {
		b := f64from(s.Bits[g.Intn(len(s.Bits))])
		switch g.Intn(3) {
		case 0:
			return b
		case 1:
			return nextUp(b)
		}
		return nextDown(b)
	}
	return pick(g, 0, 1, -1, 0.75, 1e308, -1e308, math.MaxFloat64, -math.MaxFloat64, math.Inf(1), math.Inf(-1), math.NaN(), math.SmallestNonzeroFloat64, 2.5)
}

func genDurSample(g *Gen, s *BucketSpec) int64 {
	if s != nil && s.Dur && len(s.Durs) > 0 && g.Bool(65) {
		b := s.Durs[g.Intn(len(s.Durs))]
		switch g.Intn(3) {
		case 0:
			return b
		case 1:
			if b < math.MaxInt64 {
				return b + 1
			}
		default:
			if b > math.MinInt64 {
				return b - 1
			}
		}
		return b
	}
	return pick(g, int64(0), int64(1), int64(-1), int64(math.MaxInt64), int64(math.MinInt64), int64(1e9), int64(123456789))
}

func genC03(g *Gen, tier string) *Program {
	p := &Program{Prop: "C03"}
	c := &p.Cfg
	baseCfg(g, c)
	c.Stack = pick(g, "plain", "cached", "test")
	if c.Stack == "test" {
		c.IntervalNs = 0
		c.Faults = FaultPlan{}
		g.schedule(c, 0)
	}
	if g.Bool(30) {
		if g.Bool(50) {
			c.DefBuckets = genValueSpec(g)
		} else {
			c.DefBuckets = genDurSpec(g)
		}
		if g.Bool(40) {
			c.Flags = map[string]int{"reuse_default_buckets": 1}
		}
	}
	nTasks := g.Range(1, 3)
	maxOps := 9
	if tier == "thorough" {
		maxOps = 16
	}
	hn := 0
	for t := 0; t < nTasks; t++ {
		var ops []Op
		nextM := 1
		type hv struct {
			m    int
			spec *BucketSpec
		}
		var hs []hv
		n := g.Range(3, maxOps)
		scope := 0
		if g.Bool(30) {
			ops = append(ops, Op{K: "sub", S: 0, D: 1, Name: "a"})
			scope = 1
		}
		for guard := 0; len(ops) < n && guard < 100; guard++ {
			switch g.weighted(3, 9, 2, 1) {
			case 0:
				var spec *BucketSpec
				switch g.Intn(5) {
				case 0, 1:
					spec = genValueSpec(g)
				case 2, 3:
					spec = genDurSpec(g)
				default:
					// nil, or empty but not nil: both mean the scope's defaults
					spec = pick(g, &BucketSpec{Nil: true}, &BucketSpec{Nil: true}, &BucketSpec{}, &BucketSpec{Dur: true})
				}
				hn++
				name := fmt.Sprintf("h%d", hn)
				if g.Bool(25) {
					name = "shared" // several tasks request the same identity
				}
				ops = append(ops, Op{K: "hist", S: pick(g, 0, scope), M: nextM, Name: name, B: spec})
				eff := spec
				if spec.Nil || spec.empty() {
					eff = c.DefBuckets
					if eff == nil {
						eff = &BucketSpec{Dur: true, Durs: tallyDefaultDurs}
					}
				}
				hs = append(hs, hv{nextM, eff})
				nextM++
			case 1:
				if len(hs) == 0 {
					continue
				}
				h := hs[g.Intn(len(hs))]
				wrong := g.Bool(12)
				if h.spec.Dur != wrong {
					ops = append(ops, Op{K: "recd", M: h.m, I: genDurSample(g, h.spec)})
				} else {
					ops = append(ops, Op{K: "recv", M: h.m, F: f64bits(genValueSample(g, h.spec))})
				}
			case 2:
				if c.IntervalNs > 0 {
					ops = append(ops, Op{K: "sleep", I: pick(g, c.IntervalNs/2, c.IntervalNs)})
				} else {
					ops = append(ops, Op{K: "yield"})
				}
			case 3:
				ops = append(ops, Op{K: "yield"})
			}
		}
		p.Tasks = append(p.Tasks, ops)
	}
	if c.Stack == "test" {
		p.Epilogue = append(p.Epilogue, Op{K: "snap", S: 0})
	} else {
		settleEpilogue(g, p)
	}
	return p
}

type histInfo struct {
	key    string
	name   string
	tags   map[string]string
	spec   *BucketSpec // specification of the request that created it
	ambig  bool
	til    *Tiling
	want   []int64 // required samples per bucket index
	opt    []int64 // optional samples per bucket index
	nan    int     // samples with no defined bucket (NaN): at most one bucket each
	nanOpt int
	specs  []*BucketSpec
}

func collectHists(env *Env, ops []*OpRec, ci *closeInfo) map[string]*histInfo {
	hs := map[string]*histInfo{}
	for _, r := range ops {
		mv, _ := r.Obj.(*metricVar)
		if mv == nil || mv.kind != "hist" {
			continue
		}
		k := idKey(mv.FullName, mv.Tags)
		h := hs[k]
		if h == nil {
			fs, amb := firstHistSpec(ops, ci, k)
			h = &histInfo{key: k, name: mv.FullName, tags: mv.Tags, spec: fs, ambig: amb || mv.AltName != ""}
			h.til = TilingOf(fs, env.Prog.Cfg.DefBuckets)
			h.want = make([]int64, h.til.N())
			h.opt = make([]int64, h.til.N())
			hs[k] = h
		}
		if ci.liveness(mv.scope) != live {
			h.ambig = true
		}
		if r.Op.K == "hist" {
			h.specs = append(h.specs, mv.spec)
			continue
		}
		if r.Panic != "" {
			continue
		}
		ob := ci.obligation(mv, r)
		if ob == forbidden {
			continue
		}
		idx := -2
		switch {
		case r.Op.K == "recv" && !h.til.Dur:
			x := f64from(r.Op.F)
			idx = h.til.IndexF(x)
			for _, u := range h.til.UF {
				if x == u || x == nextUp(u) || x == nextDown(u) {
					env.Probes.inc("boundary_samples")
					break
				}
			}
			if math.IsInf(x, 0) || math.IsNaN(x) {
				env.Probes.inc("nonfinite_samples")
			}
		case r.Op.K == "recd" && h.til.Dur:
			idx = h.til.IndexD(r.Op.I)
			for _, u := range h.til.UD {
				if r.Op.I == u || r.Op.I == u+1 || r.Op.I == u-1 {
					env.Probes.inc("boundary_samples")
					break
				}
			}
		default:
			env.Probes.inc("wrong_kind_samples")
			continue // a value histogram ignores durations and vice versa
		}
		switch {
		case idx == -1 && ob == required:
			h.nan++
		case idx == -1:
			h.nanOpt++
		case ob == required:
			h.want[idx]++
		default:
			h.opt[idx]++
		}
	}
	return hs
}

// checkTilingEvents verifies, on the cached path, that the buckets allocated for
// a histogram tile the line and equal the model's tiling of its specification.
func checkTilingEvents(env *Env, hs map[string]*histInfo) []Violation {
	var out []Violation
	type alloc struct {
		ev      *Event
		buckets []*Event
	}
	allocs := map[int]*alloc{}
	var order []int
	for _, e := range env.Log.Events {
		switch e.Kind {
		case EvAllocH:
			allocs[e.Handle] = &alloc{ev: e}
			order = append(order, e.Handle)
		case EvAllocVB, EvAllocDB:
			if a := allocs[e.Parent]; a != nil {
				a.buckets = append(a.buckets, e)
			}
		}
	}
	for _, id := range order {
		a := allocs[id]
		e := a.ev
		if env.isInternalID(e.Name, e.Tags) {
			continue
		}
		h := hs[idKey(e.Name, e.Tags)]
		if h == nil {
			out = append(out, vf("unknown-identity", "histogram allocated under a name/tag set no handle has: %s", e))
			continue
		}
		spec := e.Spec
		// the Buckets object handed to the reporter must be one of the requested
		// specifications (or the scope default)
		okSpec := false
		for _, s := range h.specs {
			eff := s
			if s == nil || s.Nil || s.empty() {
				eff = env.Prog.Cfg.DefBuckets
				if eff == nil {
					eff = &BucketSpec{Dur: true, Durs: tallyDefaultDurs}
				}
			}
			if reflect.DeepEqual(specOf(eff.Buckets()), spec) {
				okSpec = true
			}
		}
		if !okSpec {
			out = append(out, vf("foreign-spec", "histogram %q %v allocated with buckets %v that were never requested for it", e.Name, e.Tags, spec.Buckets()))
			continue
		}
		t := TilingOf(spec, nil)
		if len(a.buckets) != t.N() {
			out = append(out, vf("tiling", "histogram %q: %d buckets allocated, specification has %d", e.Name, len(a.buckets), t.N()))
			continue
		}
		for i, b := range a.buckets {
			if t.Dur {
				if b.Kind != EvAllocDB || int64(b.LoD) != t.LowerD(i) || int64(b.HiD) != t.UD[i] {
					out = append(out, vf("tiling", "histogram %q bucket %d allocated as (%d, %d], model (%d, %d]", e.Name, i, b.LoD, b.HiD, t.LowerD(i), t.UD[i]))
					break
				}
			} else {
				if b.Kind != EvAllocVB || f64bits(b.Lo) != f64bits(t.LowerF(i)) && b.Lo != t.LowerF(i) || b.Hi != t.UF[i] {
					out = append(out, vf("tiling", "histogram %q bucket %d allocated as (%v, %v], model (%v, %v]", e.Name, i, b.Lo, b.Hi, t.LowerF(i), t.UF[i]))
					break
				}
			}
		}
	}
	return out
}

func pairKeyF(lo, hi float64) string { return fmt.Sprintf("v|%x|%x", f64bits(lo+0), f64bits(hi+0)) }
func pairKeyD(lo, hi int64) string   { return fmt.Sprintf("d|%d|%d", lo, hi) }

func checkBucketDeliveries(env *Env, ops []*OpRec, hs map[string]*histInfo) []Violation {
	var out []Violation
	_, settled, haveSettle := opWindow(ops, "settle")
	if !haveSettle {
		settled = inf
	}
	got := map[string]map[string]int64{}
	total := map[string]int64{}
	for _, d := range env.Deliveries() {
		if d.Kind != EvHVal && d.Kind != EvHDur || env.isInternalID(d.Name, d.Tags) {
			continue
		}
		k := idKey(d.Name, d.Tags)
		h := hs[k]
		if h == nil {
			out = append(out, vf("unknown-identity", "histogram samples delivered under a name/tag set no handle has: %s", d.Ev))
			continue
		}
		if h.ambig {
			continue
		}
		// the delivered pair must be a pair of the tiling
		var pk string
		found := false
		if d.Kind == EvHDur {
			pk = pairKeyD(int64(d.LoD), int64(d.HiD))
			for i := range h.til.UD {
				if h.til.Dur && h.til.LowerD(i) == int64(d.LoD) && h.til.UD[i] == int64(d.HiD) {
					found = true
				}
			}
		} else {
			pk = pairKeyF(d.Lo, d.Hi)
			for i := range h.til.UF {
				if !h.til.Dur && h.til.LowerF(i) == d.Lo && h.til.UF[i] == d.Hi {
					found = true
				}
			}
		}
		if !found {
			out = append(out, vf("tiling", "histogram %q %v: samples delivered for bucket (%v %v, %v %v] which is not a bucket of its specification %v", d.Name, d.Tags, d.Lo, d.LoD, d.Hi, d.HiD, h.spec.Buckets()))
			continue
		}
		if !d.Cached && d.Ev.Spec != nil {
			if t2 := TilingOf(d.Ev.Spec, nil); !reflect.DeepEqual(t2, h.til) && !(d.Ev.Spec.Nil) {
				out = append(out, vf("foreign-spec", "histogram %q delivered with a Buckets value %v that is not its own %v", d.Name, d.Ev.Spec.Buckets(), h.spec.Buckets()))
			}
		}
		if d.Ev.Seq < settled {
			if got[k] == nil {
				got[k] = map[string]int64{}
			}
			got[k][pk] += d.I
			total[k] += d.I
		}
	}
	if !haveSettle {
		return out
	}
	for k, h := range hs {
		if h.ambig {
			continue
		}
		env.Probes.inc("hist_identities_checked")
		// expected per pair
		wantP, optP := map[string]int64{}, map[string]int64{}
		var wantTotal, optTotal int64
		for i := 0; i < h.til.N(); i++ {
			var pk string
			if h.til.Dur {
				pk = pairKeyD(h.til.LowerD(i), h.til.UD[i])
			} else {
				pk = pairKeyF(h.til.LowerF(i), h.til.UF[i])
			}
			wantP[pk] += h.want[i]
			optP[pk] += h.opt[i]
			wantTotal += h.want[i]
			optTotal += h.opt[i]
		}
		nanMax := int64(h.nan + h.nanOpt)
		// totals: between #non-NaN required and everything
		if total[k] < wantTotal || total[k] > wantTotal+optTotal+nanMax {
			out = append(out, vf("bucket-conservation", "histogram %q %v: %d samples delivered, %d recorded (+%d optional, +%d NaN)", h.name, h.tags, total[k], wantTotal, optTotal, nanMax))
			continue
		}
		slack := total[k] - wantTotal // may be spread over optional / NaN samples
		for pk, w := range wantP {
			g := got[k][pk]
			if g < w || g > w+optP[pk]+nanMax || g-w > slack {
				out = append(out, vf("wrong-bucket", "histogram %q %v spec %v: bucket %s received %d samples, model places %d there (+%d optional, +%d NaN anywhere)", h.name, h.tags, h.spec.Buckets(), pk, g, w, optP[pk], nanMax))
			}
		}
	}
	return out
}

func checkC03(env *Env) []Violation {
	ops := env.OpsBeforeTeardown()
	var out []Violation
	out = append(out, opPanics(ops, nil)...)
	ci := newCloseInfo(env, ops)
	hs := collectHists(env, ops, ci)
	if env.Prog.Cfg.Stack == "test" {
		for _, r := range ops {
			if r.Op.K == "snap" && r.Task == -2 && r.Ret != 0 && r.Panic == "" {
				sc, _ := r.Extra.(*SnapCopy)
				if sc == nil {
					continue
				}
				m := modelSnapshot(env, ops, ci, r.Inv)
				for k, h := range hs {
					if h.ambig {
						m.ambig[k] = true
					} else {
						env.Probes.inc("hist_identities_checked")
					}
					if h.nan+h.nanOpt > 0 {
						m.ambig[k] = true // NaN samples may or may not be counted
					}
				}
				out = append(out, compareSnap("histogram", sc.Histograms, m.hists, m.ambig, func(g SnapEntry, w *SnapEntry) string {
					if w.HasHV && !reflect.DeepEqual(g.HV, w.HV) {
						return sprintf("value buckets %v, model %v", fmtHV(g.HV), fmtHV(w.HV))
					}
					if w.HasHD && !reflect.DeepEqual(g.HD, w.HD) {
						return sprintf("duration buckets %v, model %v", g.HD, w.HD)
					}
					return ""
				})...)
			}
		}
		return out
	}
	if env.Cached != nil {
		out = append(out, checkTilingEvents(env, hs)...)
	}
	out = append(out, checkBucketDeliveries(env, ops, hs)...)
	return out
}

// ---- C20 ----

func permute(g *Gen, s *BucketSpec) *BucketSpec {
	o := &BucketSpec{Dur: s.Dur, Bits: append([]uint64(nil), s.Bits...), Durs: append([]int64(nil), s.Durs...)}
	for i := len(o.Bits) - 1; i > 0; i-- {
		j := g.Intn(i + 1)
		o.Bits[i], o.Bits[j] = o.Bits[j], o.Bits[i]
	}
	for i := len(o.Durs) - 1; i > 0; i-- {
		j := g.Intn(i + 1)
		o.Durs[i], o.Durs[j] = o.Durs[j], o.Durs[i]
	}
	return o
}

// collidingFamily returns bucket sets built to share the bucket cache's
// identity (a commutative sum of the elements).
func collidingFamily(g *Gen) []*BucketSpec {
	switch g.Intn(7) {
	case 5: // one set continues the other with bounds whose bit patterns add up to nothing (bits(0) == 0)
		return []*BucketSpec{{Bits: []uint64{f64bits(-10), f64bits(-5), f64bits(0)}}, {Bits: []uint64{f64bits(-10), f64bits(-5)}}, {Bits: []uint64{f64bits(-10), f64bits(-5), f64bits(0)}}}
	case 6: // the same with durations: -10ms + 10ms
		return []*BucketSpec{{Dur: true, Durs: []int64{-1e9, -10e6, 10e6}}, {Dur: true, Durs: []int64{-1e9}}, {Dur: true, Durs: []int64{-10e6, 10e6, -1e9}}}
	case 0: // permutations of one set
		base := &BucketSpec{Bits: []uint64{f64bits(1), f64bits(5), f64bits(2), f64bits(9)}}
		return []*BucketSpec{base, permute(g, base), permute(g, base)}
	case 1: // durations with equal sums
		return []*BucketSpec{{Dur: true, Durs: []int64{1e9, 4e9}}, {Dur: true, Durs: []int64{2e9, 3e9}}, {Dur: true, Durs: []int64{4e9, 1e9}}}
	case 2: // float bit patterns with equal sums: bits(1)+bits(4) == 2*bits(2)
		return []*BucketSpec{{Bits: []uint64{f64bits(1), f64bits(4)}}, {Bits: []uint64{f64bits(2), f64bits(2)}}, {Bits: []uint64{f64bits(4), f64bits(1)}}}
	case 3: // a value set and a duration set with the same identity
		return []*BucketSpec{{Bits: []uint64{f64bits(2)}}, {Dur: true, Durs: []int64{int64(f64bits(2))}}, {Bits: []uint64{f64bits(2)}}}
	}
	base := &BucketSpec{Dur: true, Durs: []int64{5e6, 1e6, 9e6}}
	return []*BucketSpec{base, permute(g, base), {Dur: true, Durs: []int64{7e6, 2e6, 6e6}}}
}

func genC20(g *Gen, tier string) *Program {
	p := &Program{Prop: "C20"}
	c := &p.Cfg
	baseCfg(g, c)
	c.Stack = pick(g, "plain", "cached", "test")
	if c.Stack == "test" {
		c.IntervalNs = 0
		c.Faults = FaultPlan{}
		g.schedule(c, 0)
	}
	fam := collidingFamily(g)
	shared := g.Bool(40)
	if shared {
		p.Prelude = append(p.Prelude, Op{K: "sharedspec", B: fam[0]})
	}
	if g.Bool(50) {
		p.Prelude = append(p.Prelude, Op{K: "pairs", B: fam[g.Intn(len(fam))]})
	}
	nTasks := g.Range(2, 4)
	hn := 0
	for t := 0; t < nTasks; t++ {
		var ops []Op
		nextM := 1
		if g.Bool(40) {
			ops = append(ops, Op{K: "sub", S: 0, D: 1, Name: pick(g, "a", "b")})
		}
		// a caller that builds every bucket set in one scratch slice of its own
		reuse := g.Bool(35)
		nh := g.Range(1, 3)
		if reuse {
			nh = g.Range(2, 4)
		}
		for i := nh; i > 0; i-- {
			si := g.Intn(len(fam))
			spec := fam[si]
			hn++
			op := Op{K: "hist", S: 0, M: nextM, Name: fmt.Sprintf("h%d_%d", si, hn), B: spec}
			if len(ops) > 0 && ops[0].K == "sub" && g.Bool(50) {
				op.S = 1
			}
			if shared && si == 0 {
				op.N = 1 // use the shared caller slice
			} else if reuse {
				op.N = -1 // written into the task's scratch slice
			}
			ops = append(ops, op)
			// one sample on every bound and one between
			if spec.Dur {
				for _, d := range spec.Durs {
					ops = append(ops, Op{K: "recd", M: nextM, I: d})
				}
			} else {
				for _, b := range spec.Bits {
					ops = append(ops, Op{K: "recv", M: nextM, F: b})
				}
			}
			if g.Bool(40) {
				ops = append(ops, Op{K: "pairs", B: spec, N: op.N})
			}
			if g.Bool(25) {
				ops = append(ops, genCtorOp(g))
			}
			nextM++
		}
		p.Tasks = append(p.Tasks, ops)
	}
	if c.Stack == "test" {
		p.Epilogue = append(p.Epilogue, Op{K: "snap", S: 0})
	} else {
		settleEpilogue(g, p)
	}
	return p
}

func checkC20(env *Env) []Violation {
	ops := env.OpsBeforeTeardown()
	out := checkC03(env)
	// caller slices: Histogram() and BucketPairs never modify them
	seenSpecs := map[string]bool{}
	for _, r := range ops {
		if r.Err != "" && (r.Op.K == "hist" || r.Op.K == "pairs") {
			out = append(out, vf("caller-slice-modified", "%s: %s", r.Op.String(), r.Err))
		}
		if x, _ := r.Extra.(string); r.Op.K == "hist" && x == "caller-slice-reused" {
			env.Probes.inc("caller_slice_reused")
		}
		if r.Op.K == "hist" && r.Op.B != nil {
			seenSpecs[fmt.Sprint(r.Op.B.Bits, r.Op.B.Durs)] = true
		}
	}
	if len(seenSpecs) > 1 {
		env.Probes.inc("colliding_specs")
	}
	out = append(out, checkCtors(env, ops)...)
	return out
}

func (te *taskEnv) execPairs(op *Op, rec *OpRec) {
	env := te.env
	var b tally.Buckets
	if op.N > 0 && op.N <= len(env.sharedSpecs) {
		b = env.sharedSpecs[op.N-1]
	} else {
		b = op.B.Buckets()
	}
	before := specOf(b)
	pairs := tally.BucketPairs(b)
	if !reflect.DeepEqual(before, specOf(b)) {
		rec.Err = "caller's slice modified by BucketPairs"
	}
	// the pairs tile the line per the model
	t := TilingOf(before, nil)
	if before.Nil || (len(before.Bits) == 0 && len(before.Durs) == 0) {
		return
	}
	if len(pairs) != t.N() {
		rec.Err = fmt.Sprintf("BucketPairs returned %d pairs, model has %d buckets", len(pairs), t.N())
		return
	}
	for i, p := range pairs {
		if t.Dur {
			if int64(p.LowerBoundDuration()) != t.LowerD(i) || int64(p.UpperBoundDuration()) != t.UD[i] {
				rec.Err = fmt.Sprintf("BucketPairs pair %d = (%d, %d], model (%d, %d]", i, p.LowerBoundDuration(), p.UpperBoundDuration(), t.LowerD(i), t.UD[i])
			}
		} else if p.LowerBoundValue() != t.LowerF(i) || p.UpperBoundValue() != t.UF[i] {
			rec.Err = fmt.Sprintf("BucketPairs pair %d = (%v, %v], model (%v, %v]", i, p.LowerBoundValue(), p.UpperBoundValue(), t.LowerF(i), t.UF[i])
		}
	}
}
