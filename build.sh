#!/bin/bash
# build.sh <scratch-dir> [race] : copy /repo, instrument it, build the harness test binary into <scratch-dir>/harness.test
set -e
export GOFLAGS=-mod=mod GOPROXY=off GOSUMDB=off GOTOOLCHAIN=local
S="$1"; RACE="$2"
V="$(cd "$(dirname "$0")" && pwd)"
REPO="${VERIF_REPO:-/repo}"
mkdir -p "$S"
rsync -a --delete --exclude .git "$REPO"/ "$S/tally/"
rsync -a --delete "$V/sim/" "$S/verifsim/"
rsync -a --delete --exclude go.sum "$V/harness/" "$S/harness/"
( cd "$S/tally" && go1.26.8 list -export -deps -f '{{.ImportPath}}	{{.Export}}' ./... > "$S/exports.txt" 2> "$S/list.err" ) || { cat "$S/list.err" >&2; echo "BUILD-FAIL: /repo does not compile" >&2; exit 3; }
"$V/bin/simgen" -root "$S/tally" -exports "$S/exports.txt" > "$S/simgen.out" || { cat "$S/simgen.out" >&2; exit 2; }
printf '\nrequire verifsim v0.0.0\nreplace verifsim => ../verifsim\n' >> "$S/tally/go.mod"
cp "$S/tally/go.sum" "$S/harness/go.sum"
cd "$S/harness"
if [ "$RACE" = race ]; then
  go1.26.8 test -race -c -trimpath -o "$S/harness.race.test" . 
else
  go1.26.8 test -c -trimpath -o "$S/harness.test" .
fi
