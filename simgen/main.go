// simgen rewrites a scratch copy of uber-go/tally so that it runs under the
// deterministic scheduler in verifsim/simrt:
//
//   - imports of sync, sync/atomic, go.uber.org/atomic, hash/maphash, runtime
//     (and net, in m3/thriftudp only) are pointed at the shim packages;
//   - go statements, select statements, channel sends / receives / close and
//     range loops over maps and channels are replaced by calls into simrt.
//
// Usage: simgen -root <module dir> -exports <file from go list -export> [-pkgs dir,dir,...]
//
// It fails loudly (exit status 2) on anything it cannot rewrite.
package main

import (
	"bytes"
	"flag"
	"fmt"
	"go/ast"
	"go/format"
	"go/importer"
	"go/parser"
	"go/token"
	"go/types"
	"io"
	"os"
	"path/filepath"
	"sort"
	"strconv"
	"strings"
)

var importSwap = map[string][2]string{
	"sync":               {"sync", "verifsim/simsync"},
	"sync/atomic":        {"atomic", "verifsim/simatomic"},
	"go.uber.org/atomic": {"atomic", "verifsim/simuatomic"},
	"hash/maphash":       {"maphash", "verifsim/simmaphash"},
	"runtime":            {"runtime", "verifsim/simruntime"},
	"time":               {"time", "verifsim/simtime"},
}

// packages (relative dirs) in which "net" is swapped as well
var netSwapDirs = map[string]bool{"m3/thriftudp": true}

var skipPrefixes = []string{"thirdparty", "tools", "tallymock", "m3/thrift", "m3/example", "example", "prometheus/example", "statsd/example", "multi/example", "instrument/example", ".git"}

type stats struct {
	files, imports, gos, selects, sends, recvs, closes, mapRanges, chanRanges int
}

var st stats

func fatalf(format string, a ...interface{}) {
	fmt.Fprintf(os.Stderr, "simgen: "+format+"\n", a...)
	os.Exit(2)
}

func main() {
	root := flag.String("root", "", "module root of the scratch copy")
	exports := flag.String("exports", "", "file with lines 'importpath<TAB>exportfile'")
	modpath := flag.String("module", "github.com/uber-go/tally/v4", "module path")
	flag.Parse()
	if *root == "" || *exports == "" {
		fatalf("need -root and -exports")
	}
	expMap := map[string]string{}
	data, err := os.ReadFile(*exports)
	if err != nil {
		fatalf("%v", err)
	}
	for _, line := range strings.Split(string(data), "\n") {
		parts := strings.Split(line, "\t")
		if len(parts) == 2 && parts[1] != "" {
			expMap[parts[0]] = parts[1]
		}
	}
	fset := token.NewFileSet()
	imp := importer.ForCompiler(fset, "gc", func(path string) (io.ReadCloser, error) {
		f, ok := expMap[path]
		if !ok {
			return nil, fmt.Errorf("no export data for %q", path)
		}
		return os.Open(f)
	})

	var dirs []string
	err = filepath.Walk(*root, func(p string, info os.FileInfo, err error) error {
		if err != nil {
			return err
		}
		if !info.IsDir() {
			return nil
		}
		rel, _ := filepath.Rel(*root, p)
		rel = filepath.ToSlash(rel)
		for _, sp := range skipPrefixes {
			if rel == sp || strings.HasPrefix(rel, sp+"/") {
				return filepath.SkipDir
			}
		}
		if strings.HasSuffix(rel, "/example") || strings.HasPrefix(filepath.Base(p), ".") && rel != "." {
			return filepath.SkipDir
		}
		dirs = append(dirs, rel)
		return nil
	})
	if err != nil {
		fatalf("%v", err)
	}
	sort.Strings(dirs)
	for _, rel := range dirs {
		rewriteDir(fset, imp, *root, rel, *modpath)
	}
	fmt.Printf("simgen: files=%d imports=%d go=%d select=%d send=%d recv=%d close=%d maprange=%d chanrange=%d\n",
		st.files, st.imports, st.gos, st.selects, st.sends, st.recvs, st.closes, st.mapRanges, st.chanRanges)
}

func rewriteDir(fset *token.FileSet, imp types.Importer, root, rel, modpath string) {
	dir := filepath.Join(root, rel)
	ents, err := os.ReadDir(dir)
	if err != nil {
		fatalf("%v", err)
	}
	var files []*ast.File
	var names []string
	srcs := map[*ast.File][]byte{}
	for _, e := range ents {
		n := e.Name()
		if e.IsDir() || !strings.HasSuffix(n, ".go") || strings.HasSuffix(n, "_test.go") {
			continue
		}
		full := filepath.Join(dir, n)
		src, err := os.ReadFile(full)
		if err != nil {
			fatalf("%v", err)
		}
		f, err := parser.ParseFile(fset, full, src, parser.ParseComments)
		if err != nil {
			fatalf("parse: %v", err)
		}
		if hasIgnoreTag(f) {
			continue
		}
		files = append(files, f)
		names = append(names, full)
		srcs[f] = src
	}
	if len(files) == 0 {
		return
	}
	// group by package name (a directory holds one non-test package)
	pkgName := files[0].Name.Name
	for _, f := range files {
		if f.Name.Name != pkgName {
			fatalf("%s: mixed package names %s / %s", rel, pkgName, f.Name.Name)
		}
	}
	info := &types.Info{Types: map[ast.Expr]types.TypeAndValue{}, Uses: map[*ast.Ident]types.Object{}}
	conf := types.Config{Importer: imp, Error: func(err error) {}}
	ipath := modpath
	if rel != "." {
		ipath = modpath + "/" + rel
	}
	if _, err := conf.Check(ipath, fset, files, info); err != nil {
		fatalf("type-check %s: %v", ipath, err)
	}
	for i, f := range files {
		r := &rewriter{fset: fset, info: info, src: srcs[f], file: f, base: fset.File(f.Pos()).Base(), rel: rel, name: filepath.Base(names[i])}
		out := r.rewriteFile()
		if out == nil {
			continue
		}
		fm, err := format.Source(out)
		if err != nil {
			os.WriteFile(names[i]+".simgen-broken", out, 0o644)
			fatalf("format %s: %v", names[i], err)
		}
		if err := os.WriteFile(names[i], fm, 0o644); err != nil {
			fatalf("%v", err)
		}
		st.files++
	}
}

func hasIgnoreTag(f *ast.File) bool {
	for _, cg := range f.Comments {
		if cg.Pos() > f.Package {
			break
		}
		for _, c := range cg.List {
			if strings.HasPrefix(c.Text, "//go:build ignore") || strings.HasPrefix(c.Text, "// +build ignore") {
				return true
			}
		}
	}
	return false
}

type edit struct {
	start, end int // offsets into src
	text       string
}

type rewriter struct {
	fset     *token.FileSet
	info     *types.Info
	src      []byte
	file     *ast.File
	base     int
	rel      string
	name     string
	needsRT  bool
	counter  int
	changed  bool
	funcName string
}

func (r *rewriter) off(p token.Pos) int { return r.fset.Position(p).Offset }

func (r *rewriter) fresh(prefix string) string {
	r.counter++
	return fmt.Sprintf("_sim%s%d", prefix, r.counter)
}

func (r *rewriter) site(p token.Pos) string {
	pos := r.fset.Position(p)
	return fmt.Sprintf("%s/%s:%d", r.rel, r.name, pos.Line)
}

// text returns the source of n with all rewritable descendants rewritten.
func (r *rewriter) text(n ast.Node) string {
	if n == nil {
		return ""
	}
	return r.textRange(n, n.Pos(), n.End())
}

func (r *rewriter) textRange(n ast.Node, from, to token.Pos) string {
	var edits []edit
	ast.Inspect(n, func(m ast.Node) bool {
		if m == nil || m == n {
			return true
		}
		if m.Pos() < from || m.End() > to {
			// outside the requested range (only happens for partial renders)
			if m.End() <= from || m.Pos() >= to {
				return false
			}
			return true
		}
		if repl, ok := r.transform(m); ok {
			edits = append(edits, edit{r.off(m.Pos()), r.off(m.End()), repl})
			return false
		}
		return true
	})
	return r.apply(r.off(from), r.off(to), edits)
}

func (r *rewriter) apply(start, end int, edits []edit) string {
	if len(edits) == 0 {
		return string(r.src[start:end])
	}
	sort.Slice(edits, func(i, j int) bool { return edits[i].start < edits[j].start })
	var b bytes.Buffer
	pos := start
	for _, e := range edits {
		if e.start < pos {
			fatalf("%s: overlapping edits", r.name)
		}
		b.Write(r.src[pos:e.start])
		b.WriteString(e.text)
		pos = e.end
	}
	b.Write(r.src[pos:end])
	r.changed = true
	return b.String()
}

// stmtsText renders a statement list (the inside of a block or case clause).
func (r *rewriter) stmtsText(list []ast.Stmt) string {
	var b strings.Builder
	for _, s := range list {
		// the statement itself may need rewriting (text only looks at descendants)
		if repl, ok := r.transform(s); ok {
			b.WriteString(repl)
		} else {
			b.WriteString(r.text(s))
		}
		b.WriteString("\n")
	}
	return b.String()
}

func isRecv(e ast.Expr) (*ast.UnaryExpr, bool) {
	for {
		p, ok := e.(*ast.ParenExpr)
		if !ok {
			break
		}
		e = p.X
	}
	u, ok := e.(*ast.UnaryExpr)
	if ok && u.Op == token.ARROW {
		return u, true
	}
	return nil, false
}

func (r *rewriter) transform(m ast.Node) (string, bool) {
	switch n := m.(type) {
	case *ast.GoStmt:
		st.gos++
		r.needsRT = true
		if len(n.Call.Args) != 0 {
			// `go f(x, y)`: the function value and the arguments are evaluated now, by
			// the spawning goroutine, and the call itself happens in the new one.
			// Constants and nil stay where they are (they have no type to keep).
			fn := r.fresh("gof")
			pre := []string{fmt.Sprintf("%s := %s", fn, r.text(n.Call.Fun))}
			var call []string
			for i, a := range n.Call.Args {
				tv, ok := r.info.Types[a]
				if !ok {
					fatalf("%s: no type for an argument of a go statement", r.site(a.Pos()))
				}
				if _, isTuple := tv.Type.(*types.Tuple); isTuple {
					fatalf("%s: go statement whose argument is a multi-value call is not supported by simgen", r.site(a.Pos()))
				}
				if tv.Value != nil || tv.IsNil() {
					call = append(call, r.text(a))
					continue
				}
				v := r.fresh("goa")
				pre = append(pre, fmt.Sprintf("%s := %s", v, r.text(a)))
				if i == len(n.Call.Args)-1 && n.Call.Ellipsis.IsValid() {
					v += "..."
				}
				call = append(call, v)
			}
			return fmt.Sprintf("{\n%s\nsimrt.Go(%q, func() { %s(%s) })\n}", strings.Join(pre, "\n"), r.site(n.Pos()), fn, strings.Join(call, ", ")), true
		}
		var callee string
		if fl, ok := n.Call.Fun.(*ast.FuncLit); ok {
			callee = r.text(fl)
			return fmt.Sprintf("simrt.Go(%q, %s)", r.site(n.Pos()), callee), true
		}
		callee = r.text(n.Call.Fun)
		return fmt.Sprintf("simrt.Go(%q, func() { %s() })", r.site(n.Pos()), callee), true

	case *ast.SendStmt:
		st.sends++
		r.needsRT = true
		return fmt.Sprintf("simrt.ChanSend(%s, %s)", r.text(n.Chan), r.text(n.Value)), true

	case *ast.AssignStmt:
		if len(n.Lhs) == 2 && len(n.Rhs) == 1 {
			if u, ok := isRecv(n.Rhs[0]); ok {
				st.recvs++
				r.needsRT = true
				return fmt.Sprintf("%s, %s %s simrt.ChanRecv2(%s)", r.text(n.Lhs[0]), r.text(n.Lhs[1]), n.Tok.String(), r.text(u.X)), true
			}
		}
		return "", false

	case *ast.ValueSpec:
		if len(n.Names) == 2 && len(n.Values) == 1 {
			if u, ok := isRecv(n.Values[0]); ok {
				st.recvs++
				r.needsRT = true
				typ := ""
				if n.Type != nil {
					fatalf("%s: typed var with channel receive is not supported", r.site(n.Pos()))
				}
				return fmt.Sprintf("%s, %s %s= simrt.ChanRecv2(%s)", n.Names[0].Name, n.Names[1].Name, typ, r.text(u.X)), true
			}
		}
		return "", false

	case *ast.UnaryExpr:
		if n.Op == token.ARROW {
			st.recvs++
			r.needsRT = true
			return fmt.Sprintf("simrt.ChanRecv(%s)", r.text(n.X)), true
		}
		if cl, ok := n.X.(*ast.CompositeLit); ok && n.Op == token.AND {
			if tv, ok := r.info.Types[cl]; ok {
				if _, isStruct := tv.Type.Underlying().(*types.Struct); isStruct {
					// the birth of an object: gives pointer-keyed maps a replayable order
					r.needsRT = true
					return fmt.Sprintf("simrt.Born(&%s)", r.text(cl)), true
				}
			}
		}
		return "", false

	case *ast.CallExpr:
		if id, ok := n.Fun.(*ast.Ident); ok && id.Name == "close" && len(n.Args) == 1 {
			if _, isBuiltin := r.info.Uses[id].(*types.Builtin); isBuiltin {
				st.closes++
				r.needsRT = true
				return fmt.Sprintf("simrt.ChanClose(%s)", r.text(n.Args[0])), true
			}
		}
		return "", false

	case *ast.SelectStmt:
		return r.transformSelect(n), true

	case *ast.RangeStmt:
		tv, ok := r.info.Types[n.X]
		if !ok {
			fatalf("%s: no type for range expression", r.site(n.Pos()))
		}
		switch ut := tv.Type.Underlying().(type) {
		case *types.Map:
			if !deterministicKey(ut.Key()) {
				fatalf("%s: range over a map whose key type %s has no deterministic order", r.site(n.Pos()), ut.Key())
			}
			return r.transformMapRange(n), true
		case *types.Chan:
			return r.transformChanRange(n), true
		}
		return "", false
	}
	return "", false
}

func deterministicKey(t types.Type) bool {
	switch u := t.Underlying().(type) {
	case *types.Basic:
		// floats included: keys are sorted by value, NaN keys (which nothing can
		// tell apart) are handled by the iterator
		return u.Info()&(types.IsString|types.IsInteger|types.IsBoolean|types.IsFloat) != 0
	case *types.Array:
		return deterministicKey(u.Elem())
	case *types.Struct:
		for i := 0; i < u.NumFields(); i++ {
			if !deterministicKey(u.Field(i).Type()) {
				return false
			}
		}
		return true
	case *types.Pointer, *types.Interface:
		// ordered by a rendering of what they point at (simrt.canonical); keys that
		// render alike are counted per run as ambiguous
		return true
	}
	return false
}

func isBlank(e ast.Expr) bool {
	if e == nil {
		return true
	}
	id, ok := e.(*ast.Ident)
	return ok && id.Name == "_"
}

func (r *rewriter) transformMapRange(n *ast.RangeStmt) string {
	st.mapRanges++
	r.needsRT = true
	it := r.fresh("it")
	var b strings.Builder
	fmt.Fprintf(&b, "for %s := simrt.NewMapIter(%s); %s.Next(); {\n", it, r.text(n.X), it)
	op := ":="
	if n.Tok == token.ASSIGN {
		op = "="
	}
	switch {
	case !isBlank(n.Key) && !isBlank(n.Value):
		fmt.Fprintf(&b, "%s, %s %s %s.Key(), %s.Val()\n", r.text(n.Key), r.text(n.Value), op, it, it)
	case !isBlank(n.Key):
		fmt.Fprintf(&b, "%s %s %s.Key()\n", r.text(n.Key), op, it)
	case !isBlank(n.Value):
		fmt.Fprintf(&b, "%s %s %s.Val()\n", r.text(n.Value), op, it)
	}
	b.WriteString(r.stmtsText(n.Body.List))
	b.WriteString("}")
	return b.String()
}

func (r *rewriter) transformChanRange(n *ast.RangeStmt) string {
	st.chanRanges++
	r.needsRT = true
	it := r.fresh("it")
	var b strings.Builder
	fmt.Fprintf(&b, "for %s := simrt.NewChanIter(%s); %s.Next(); {\n", it, r.text(n.X), it)
	if !isBlank(n.Key) {
		op := ":="
		if n.Tok == token.ASSIGN {
			op = "="
		}
		fmt.Fprintf(&b, "%s %s %s.Val()\n", r.text(n.Key), op, it)
	}
	b.WriteString(r.stmtsText(n.Body.List))
	b.WriteString("}")
	return b.String()
}

func (r *rewriter) transformSelect(n *ast.SelectStmt) string {
	st.selects++
	r.needsRT = true
	res := r.fresh("s")
	val, okv := res+".V", res+".OK"
	hasDefault := false
	var cases []string
	var bodies strings.Builder
	ci := 0
	for _, c := range n.Body.List {
		cc := c.(*ast.CommClause)
		if cc.Comm == nil {
			hasDefault = true
			bodies.WriteString("default:\n")
			bodies.WriteString(r.stmtsText(cc.Body))
			continue
		}
		pre := ""
		switch s := cc.Comm.(type) {
		case *ast.SendStmt:
			cases = append(cases, fmt.Sprintf("simrt.SendCase(%s, %s)", r.text(s.Chan), r.text(s.Value)))
		case *ast.ExprStmt:
			u, ok := isRecv(s.X)
			if !ok {
				fatalf("%s: unexpected select case", r.site(s.Pos()))
			}
			cases = append(cases, fmt.Sprintf("simrt.RecvCase(%s)", r.text(u.X)))
		case *ast.AssignStmt:
			u, ok := isRecv(s.Rhs[0])
			if !ok {
				fatalf("%s: unexpected select case", r.site(s.Pos()))
			}
			ch := r.text(u.X)
			cases = append(cases, fmt.Sprintf("simrt.RecvCase(%s)", ch))
			if len(s.Lhs) == 1 {
				if !isBlank(s.Lhs[0]) {
					pre = fmt.Sprintf("%s %s simrt.RecvVal(%s, %s)\n", r.text(s.Lhs[0]), s.Tok.String(), ch, val)
				}
			} else {
				l0, l1 := r.text(s.Lhs[0]), r.text(s.Lhs[1])
				pre = fmt.Sprintf("%s, %s %s simrt.RecvVal(%s, %s), %s\n", l0, l1, s.Tok.String(), ch, val, okv)
			}
		default:
			fatalf("%s: unexpected select case %T", r.site(cc.Pos()), cc.Comm)
		}
		fmt.Fprintf(&bodies, "case %d:\n%s", ci, pre)
		bodies.WriteString(r.stmtsText(cc.Body))
		ci++
	}
	var b strings.Builder
	fmt.Fprintf(&b, "switch %s := simrt.Select(%v, %s); %s.I {\n", res, hasDefault, strings.Join(cases, ", "), res)
	b.WriteString(bodies.String())
	b.WriteString("}")
	return b.String()
}

func (r *rewriter) rewriteFile() []byte {
	f := r.file
	var edits []edit
	// imports
	for _, is := range f.Imports {
		path, _ := strconv.Unquote(is.Path.Value)
		sw, ok := importSwap[path]
		if !ok && path == "net" && netSwapDirs[r.rel] {
			sw, ok = [2]string{"net", "verifsim/simnet"}, true
		}
		if !ok {
			continue
		}
		name := sw[0]
		if is.Name != nil {
			name = is.Name.Name
		}
		edits = append(edits, edit{r.off(is.Pos()), r.off(is.End()), fmt.Sprintf("%s %q", name, sw[1])})
		st.imports++
	}
	// declarations
	for _, d := range f.Decls {
		if gd, ok := d.(*ast.GenDecl); ok && gd.Tok == token.IMPORT {
			continue
		}
		before := r.changed
		r.changed = false
		t := r.text(d)
		if r.changed {
			edits = append(edits, edit{r.off(d.Pos()), r.off(d.End()), t})
		}
		r.changed = r.changed || before
	}
	if len(edits) == 0 {
		return nil
	}
	if r.needsRT {
		// add the simrt import right after the package clause
		p := r.off(f.Name.End())
		edits = append(edits, edit{p, p, "\n\nimport simrt \"verifsim/simrt\"\n"})
	}
	r.changed = false
	out := r.apply(0, len(r.src), edits)
	return []byte(out)
}
