package simtime

import (
	"testing"
	"time"
)

func TestWithMono(t *testing.T) {
	base := time.Date(2000, 1, 1, 0, 0, 0, 123, time.UTC)
	a := withMono(base, 5*time.Second)
	b := withMono(base.Add(-time.Hour), 7*time.Second) // wall went back an hour, 2 s passed
	if d := b.Sub(a); d != 2*time.Second {
		t.Fatalf("Sub = %v", d)
	}
	if !a.Equal(base) || a.UnixNano() != base.UnixNano() || b.UnixNano() != base.Add(-time.Hour).UnixNano() {
		t.Fatalf("wall reading changed: %v %v", a, b)
	}
	if d := time.Unix(0, b.UnixNano()).Sub(time.Unix(0, a.UnixNano())); d != -time.Hour {
		t.Fatalf("wall difference = %v", d)
	}
}
