package harness

import (
	"fmt"
	"io"
	"sort"
	"strings"
	"sync/atomic"
	"testing"
	"testing/synctest"
	"time"

	tally "github.com/uber-go/tally/v4"
	"verifsim/simnet"
	"verifsim/simrt"
	sync "verifsim/simsync"
)

// Probes count how often the interesting conditions of a run were reached.
type Probes struct {
	SlowCalls       int
	OverlapPasses   int // two report passes in flight at the same time
	CloseDuringPass int
	Custom          map[string]int
}

func (p *Probes) inc(name string) {
	if p.Custom == nil {
		p.Custom = map[string]int{}
	}
	p.Custom[name]++
}

// Env is the state of one run.
type Env struct {
	Sim              *simrt.Sim
	rootCloseInvoked bool
	starveArmed      bool
	starveBase       int
	rootLib          map[int]bool // library tasks alive when setup returned: the root's own goroutines
	Prog             *Program
	Log              *Log
	Model            *Model
	Prop             *Property

	Root       tally.Scope
	RootCloser io.Closer
	Plain      *RecReporter
	Cached     *RecCached
	Net        *simnet.Network
	Probes     Probes

	noopPtr         uintptr
	sharedSpecs     []tally.Buckets
	sharedSpecsOrig []*BucketSpec
	abort           bool
	rootClosed      bool
	snaps           map[int]*SnapCopy
	san             tally.Sanitizer
	main            *taskEnv
	tasks           []*taskEnv
	ext             interface{} // stack-specific state (m3, prom, transport)
	startWall       time.Time
	setupErr        string
}

//go:norace
func (env *Env) setRootClosed() { env.rootClosed = true }

//go:norace
func (env *Env) isRootClosed() bool { return env.rootClosed }

//go:norace
func (env *Env) setRootCloseInvoked() { env.rootCloseInvoked = true }

//go:norace
func (env *Env) isRootCloseInvoked() bool { return env.rootCloseInvoked }

//go:norace
func (env *Env) noteSlow() { env.Probes.SlowCalls++ }

// Violation is a property violation found by an oracle.
type Violation struct {
	Class string // stable identifier of the kind of violation (used by the shrinker)
	Msg   string
}

// RunResult is the outcome of one run.
type RunResult struct {
	Prog       *Program
	Tape       []uint32
	Violations []Violation
	Stats      simrt.Stats
	Probes     Probes
	Sig        uint64
	Interest   bool
	Overrun    int
	Trace      []simrt.TraceEntry
	Infra      string // non-empty: infrastructure problem, not a verdict
	// Inconclusive: the run was cut off at the simulator's hard cap while still
	// making progress; no oracle was applied
	Inconclusive bool
	LogDump      []string
}

// Property bundles generator and oracle of one property.
type Property struct {
	ID       string
	Gen      func(g *Gen, tier string) *Program
	Check    func(env *Env) []Violation
	Interest func(env *Env) bool
	Rule     string
}

var properties = map[string]*Property{}

func register(p *Property) { properties[p.ID] = p }

func simConfig(c *Config, trace bool) simrt.Config {
	sc := simrt.Config{
		Strategy:    simrt.Strategy(c.Strategy),
		PStay:       c.PStay,
		PContention: c.PContention,
		PCTDepth:    c.PCTDepth,
		PCTHorizon:  c.PCTHorizon,
		PAdvance:    c.PAdvance,
		VirtualCPUs: c.CPUs,
		Trace:       trace,
		PoolDropPct: c.PoolDropPct,
		PStall:      c.PStall,
		MaxSteps:    c.MaxSteps,
	}
	for _, w := range c.WallSteps {
		sc.WallSteps = append(sc.WallSteps, simrt.WallStep{At: time.Duration(w[0]), Delta: time.Duration(w[1])})
	}
	for _, q := range c.Quanta {
		sc.Quanta = append(sc.Quanta, time.Duration(q))
	}
	return sc
}

// RunOne executes one program under one decision source.
// Progress counts runs started and finished; the worker's stall watchdog reads it.
var Progress atomic.Int64

func RunOne(t *testing.T, prop *Property, prog *Program, ch *simrt.Chooser, trace bool) (res *RunResult) {
	res = &RunResult{Prog: prog}
	Progress.Add(1)
	defer Progress.Add(1)
	var env *Env
	defer func() {
		if r := recover(); r != nil {
			msg := fmt.Sprint(r)
			if strings.Contains(msg, "blocked goroutines remain") {
				// goroutines that could not be ended (blocked in the runtime): the run
				// itself completed; counted in Stats.Leaked
				return
			}
			res.Infra = "panic outside tasks: " + msg
		}
	}()
	synctest.Test(t, func(t *testing.T) {
		sc := simConfig(&prog.Cfg, trace)
		sc.Progress = func() int { return env.Log.Seq() }
		sc.Starved = func() string { return env.starved() }
		sim := simrt.New(sc, ch)
		env = &Env{Sim: sim, Prog: prog, Log: &Log{}, Model: NewModel(&prog.Cfg), Prop: prop, snaps: map[int]*SnapCopy{}}
		simnet.Net = &simnet.Network{}
		env.Net = simnet.Net
		saveNoop := tally.NoopScope
		sim.Run(env.mainTask)
		tally.NoopScope = saveNoop
		res.Stats = sim.Stats
		res.Sig = sim.Signature()
		res.Trace = sim.Trace
		res.Tape = ch.Tape
		res.Overrun = ch.Overrun
		switch {
		case env.setupErr != "":
			res.Infra = "setup: " + env.setupErr
		case len(sim.Panics) > 0:
			for _, p := range sim.Panics {
				res.Violations = append(res.Violations, prop.classifyPanic(env, p))
			}
		case sim.Deadlock != "":
			res.Violations = append(res.Violations, Violation{Class: "deadlock", Msg: "deadlock: no task can make progress: " + sim.Deadlock})
		case sim.Inconclusive != "":
			// cut off at the hard cap while still making progress: neither a
			// violation nor a run the oracles can be applied to
			res.Inconclusive = true
		case sim.Livelock != "":
			res.Violations = append(res.Violations, Violation{Class: "livelock", Msg: "no completion under fair scheduling: " + sim.Livelock})
		default:
			res.Violations = prop.Check(env)
			if prop.Interest != nil {
				res.Interest = prop.Interest(env)
			}
		}
		res.Probes = env.Probes
		if trace || len(res.Violations) > 0 {
			res.LogDump = env.dumpLog(400)
		}
	})
	return res
}

func (p *Property) classifyPanic(env *Env, t *simrt.Task) Violation {
	stack := t.PanicStack
	if i := strings.Index(stack, "panic("); i >= 0 {
		stack = stack[i:]
	}
	if len(stack) > 1500 {
		stack = stack[:1500]
	}
	return Violation{Class: "panic", Msg: fmt.Sprintf("task %d (%s) panicked: %v\n%s", t.ID, t.Name, t.PanicVal, stack)}
}

// mainTask is task 0 of every run.
func (env *Env) mainTask() {
	if err := env.setup(); err != nil {
		env.setupErr = err.Error()
		return
	}
	env.rootLib = map[int]bool{}
	for _, t := range env.Sim.LiveLibTasks() {
		env.rootLib[t.ID] = true
	}
	prog := env.Prog
	env.main.runOps(prog.Prelude)
	var wg sync.WaitGroup
	for i := range prog.Tasks {
		te := env.main.clone(i)
		env.tasks = append(env.tasks, te)
		ops := prog.Tasks[i]
		wg.Add(1)
		simrt.GoTask(fmt.Sprintf("w%d", i), func() {
			defer wg.Done()
			te.runOps(ops)
		})
	}
	wg.Wait()
	ep := env.main.clone(-2)
	ep.runOps(prog.Epilogue)
	env.teardown()
}

func (env *Env) setup() error {
	cfg := &env.Prog.Cfg
	// inert scopes are served from this exported variable; give every run its own
	tally.NoopScope, _ = tally.NewRootScope(tally.ScopeOptions{Reporter: tally.NullStatsReporter}, 0)
	env.noopPtr = objPtr(tally.NoopScope)
	env.main = (&taskEnv{env: env}).clone(-1)
	for _, b := range env.Prog.sharedSpecs() {
		env.sharedSpecs = append(env.sharedSpecs, b.Buckets())
		env.sharedSpecsOrig = append(env.sharedSpecsOrig, specOf(b.Buckets()))
	}
	if cfg.Sanitize != nil {
		env.san = tally.NewSanitizer(*cfg.Sanitize.Tally())
	}
	switch cfg.Stack {
	case "plain", "cached", "both":
		opts := tally.ScopeOptions{
			Tags:                   copyTags(cfg.RootTags),
			Prefix:                 cfg.Prefix,
			Separator:              cfg.Separator,
			SanitizeOptions:        cfg.Sanitize.Tally(),
			OmitCardinalityMetrics: cfg.OmitCard,
			CardinalityMetricsTags: copyTags(cfg.CardTags),
		}
		if cfg.DefBuckets != nil {
			opts.DefaultBuckets = cfg.DefBuckets.Buckets()
		}
		if cfg.Stack == "both" {
			// a plain and a cached reporter at once: the scope reports counters,
			// gauges and histograms through the plain one; timers go through the
			// cached handle, which takes precedence
			rr := &RecReporter{seam{env}}
			rc := &RecCached{seam: seam{env}}
			env.Plain, env.Cached = rr, rc
			opts.Reporter, opts.CachedReporter = rr, rc
		} else if cfg.Stack == "plain" {
			rr := &RecReporter{seam{env}}
			env.Plain = rr
			if cfg.Faults.HasCloser {
				opts.Reporter = &RecReporterCloser{*rr}
				env.Plain = &opts.Reporter.(*RecReporterCloser).RecReporter
			} else {
				opts.Reporter = rr
			}
		} else {
			rc := &RecCached{seam: seam{env}}
			env.Cached = rc
			if cfg.Faults.HasCloser {
				c := &RecCachedCloser{RecCached{seam: seam{env}}}
				env.Cached = &c.RecCached
				opts.CachedReporter = c
			} else {
				opts.CachedReporter = rc
			}
		}
		env.Root, env.RootCloser = tally.NewRootScope(opts, time.Duration(cfg.IntervalNs))
		env.main.scopes[0] = &scopeVar{sc: env.Root, ptr: objPtr(env.Root), model: env.Model.Root()}
		if cfg.Flags["reuse_default_buckets"] == 1 && opts.DefaultBuckets != nil {
			// the caller goes on to use the slice it passed as DefaultBuckets for
			// something else: the scope's defaults are what they were at construction
			switch b := opts.DefaultBuckets.(type) {
			case tally.ValueBuckets:
				for i := range b {
					b[i] = b[i]*10 + 7
				}
			case tally.DurationBuckets:
				for i := range b {
					b[i] = b[i]*10 + 7
				}
			}
		}
	case "test":
		cfg.DefBuckets = nil // NewTestScope takes no default buckets
		ts := tally.NewTestScope(cfg.Prefix, copyTags(cfg.RootTags))
		env.Root = ts
		if c, ok := ts.(io.Closer); ok {
			env.RootCloser = c
		}
		env.main.scopes[0] = &scopeVar{sc: ts, ptr: objPtr(ts), model: env.Model.Root()}
	default:
		return env.setupExt()
	}
	return nil
}

// teardown ends library goroutines so that the bubble can finish; nothing that
// happens here is part of the checked history.
func (env *Env) teardown() {
	env.Log.addOp(&OpRec{Task: -3, Op: &Op{K: "teardown"}, Inv: env.Log.Next()})
	defer func() { recover() }()
	if env.RootCloser != nil {
		env.RootCloser.Close()
	}
	env.teardownExt()
}

// teardownSeq returns the sequence number at which teardown began.
func (env *Env) teardownSeq() int {
	for i := len(env.Log.Ops) - 1; i >= 0; i-- {
		if env.Log.Ops[i].Op.K == "teardown" {
			return env.Log.Ops[i].Inv
		}
	}
	return env.Log.Seq() + 1
}

func (p *Program) sharedSpecs() []*BucketSpec {
	var out []*BucketSpec
	if p.Cfg.Flags != nil {
		// shared caller slices are declared by "sharedspec" ops in the prelude
	}
	for i := range p.Prelude {
		if p.Prelude[i].K == "sharedspec" {
			out = append(out, p.Prelude[i].B)
		}
	}
	return out
}

// Deliveries lists what reached the reporter before teardown, cached handles resolved.
func (env *Env) Deliveries() []*Delivery {
	end := env.teardownSeq()
	var out []*Delivery
	for _, e := range env.Log.Events {
		if e.Seq >= end {
			break
		}
		switch e.Kind {
		case EvCounter, EvGauge, EvTimer, EvHVal, EvHDur:
			out = append(out, &Delivery{Ev: e, Kind: e.Kind, Name: e.Name, Tags: e.Tags, I: e.I, F: e.F, Lo: e.Lo, Hi: e.Hi, LoD: e.LoD, HiD: e.HiD, Cached: e.Cached})
		}
	}
	return out
}

// OpsBeforeTeardown returns the op records of the checked history.
func (env *Env) OpsBeforeTeardown() []*OpRec {
	var out []*OpRec
	for _, r := range env.Log.Ops {
		if r.Op.K == "teardown" {
			break
		}
		out = append(out, r)
	}
	return out
}

func (env *Env) dumpLog(max int) []string {
	type item struct {
		seq int
		s   string
	}
	var items []item
	dense := map[uintptr]int{}
	for _, r := range env.Log.Ops {
		id := 0
		if r.Ptr != 0 {
			if _, ok := dense[r.Ptr]; !ok {
				dense[r.Ptr] = len(dense) + 1
			}
			id = dense[r.Ptr]
		}
		s := fmt.Sprintf("op   task=%d #%d %s obj=p%d", r.Task, r.Idx, r.Op.String(), id)
		if r.Panic != "" {
			s += " PANIC=" + r.Panic
		}
		if r.Err != "" {
			s += " err=" + r.Err
		}
		items = append(items, item{r.Inv, s + " {"})
		if r.Ret != 0 {
			items = append(items, item{r.Ret, fmt.Sprintf("op   task=%d #%d %s }", r.Task, r.Idx, r.Op.K)})
		}
	}
	for _, e := range env.Log.Events {
		items = append(items, item{e.Seq, "rep  " + e.String()})
	}
	sort.Slice(items, func(i, j int) bool { return items[i].seq < items[j].seq })
	var out []string
	for i, it := range items {
		if i >= max {
			out = append(out, "...")
			break
		}
		out = append(out, fmt.Sprintf("%5d %s", it.seq, it.s))
	}
	return out
}
