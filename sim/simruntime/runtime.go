// Package simruntime has the part of package runtime's API a library like
// tally uses; GOMAXPROCS reports the run's virtual CPU count and Gosched is a
// scheduling point.
package simruntime

import (
	"runtime"

	"verifsim/simrt"
)

type (
	Frames   = runtime.Frames
	Frame    = runtime.Frame
	Func     = runtime.Func
	MemStats = runtime.MemStats
	Error    = runtime.Error
)

const (
	GOOS     = runtime.GOOS
	GOARCH   = runtime.GOARCH
	Compiler = runtime.Compiler
)

// GOMAXPROCS reports the virtual CPU count of the run; it never changes the
// real setting during a run.
func GOMAXPROCS(n int) int {
	if simrt.Active() != nil {
		return simrt.VirtualCPUs()
	}
	return runtime.GOMAXPROCS(n)
}

// NumCPU reports the virtual CPU count.
func NumCPU() int {
	if simrt.Active() != nil {
		return simrt.VirtualCPUs()
	}
	return runtime.NumCPU()
}

// Gosched yields.
func Gosched() { simrt.Gosched() }

func Goexit()                                      { runtime.Goexit() }
func GC()                                          { runtime.GC() }
func NumGoroutine() int                            { return runtime.NumGoroutine() }
func KeepAlive(x interface{})                      { runtime.KeepAlive(x) }
func SetFinalizer(obj interface{}, f interface{})  { runtime.SetFinalizer(obj, f) }
func Stack(buf []byte, all bool) int               { return runtime.Stack(buf, all) }
func Caller(skip int) (uintptr, string, int, bool) { return runtime.Caller(skip + 1) }
func Callers(skip int, pc []uintptr) int           { return runtime.Callers(skip+1, pc) }
func CallersFrames(callers []uintptr) *Frames      { return runtime.CallersFrames(callers) }
func FuncForPC(pc uintptr) *Func                   { return runtime.FuncForPC(pc) }
func ReadMemStats(m *MemStats)                     { runtime.ReadMemStats(m) }
func Version() string                              { return runtime.Version() }
func LockOSThread()                                { runtime.LockOSThread() }
func UnlockOSThread()                              { runtime.UnlockOSThread() }
func NumCgoCall() int64                            { return runtime.NumCgoCall() }
func GOROOT() string                               { return runtime.GOROOT() }
