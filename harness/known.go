package harness

import (
	"encoding/json"
	"os"
	"strings"
)

// KnownFinding is one entry of /verif/known_findings.json.
type KnownFinding struct {
	Property string `json:"property"`
	Status   string `json:"status"` // "known" or "fixed"
	ID       string `json:"id"`
	Class    string `json:"class"`    // violation class it applies to
	Contains string `json:"contains"` // substring of the violation text that identifies the failing input / call site
	Text     string `json:"text"`     // what is printed
	Commit   string `json:"commit,omitempty"`
}

type knownSet struct{ list []KnownFinding }

func loadKnown(prop string) *knownSet {
	ks := &knownSet{}
	path := os.Getenv("VERIF_KNOWN")
	if path == "" {
		return ks
	}
	data, err := os.ReadFile(path)
	if err != nil {
		return ks
	}
	var all struct {
		Findings []KnownFinding `json:"findings"`
	}
	if json.Unmarshal(data, &all) != nil {
		return ks
	}
	for _, f := range all.Findings {
		if f.Property == prop && f.Status == "known" {
			ks.list = append(ks.list, f)
		}
	}
	return ks
}

// match returns the text of the known finding that explains every violation of
// the replay, or "".
func (ks *knownSet) match(rf *ReplayFile) string {
	if len(ks.list) == 0 || len(rf.Violation) == 0 {
		return ""
	}
	var which string
	for _, v := range rf.Violation {
		ok := false
		for _, f := range ks.list {
			if strings.HasPrefix(v, "["+f.Class+"]") && strings.Contains(v, f.Contains) {
				ok = true
				which = f.ID + " " + f.Text
				break
			}
		}
		if !ok {
			return ""
		}
	}
	return which
}
