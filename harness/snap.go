package harness

import (
	"time"

	"errors"
	tally "github.com/uber-go/tally/v4"
	"github.com/uber-go/tally/v4/instrument"
)

// SnapCopy is a deep copy of a test-scope snapshot.
type SnapCopy struct {
	Counters   map[string]SnapEntry
	Gauges     map[string]SnapEntry
	Timers     map[string]SnapEntry
	Histograms map[string]SnapEntry
	raw        tally.Snapshot
}

// SnapEntry is one metric of a snapshot.
type SnapEntry struct {
	Name   string
	Tags   map[string]string
	I      int64
	F      uint64
	Timers []time.Duration
	HV     map[uint64]int64 // float64 bits of upper bound -> samples
	HD     map[int64]int64
	HasHV  bool
	HasHD  bool
}

func takeSnapshot(s tally.Snapshot, keepRaw bool) *SnapCopy {
	c := &SnapCopy{Counters: map[string]SnapEntry{}, Gauges: map[string]SnapEntry{}, Timers: map[string]SnapEntry{}, Histograms: map[string]SnapEntry{}}
	for k, v := range s.Counters() {
		c.Counters[k] = SnapEntry{Name: v.Name(), Tags: copyTags(v.Tags()), I: v.Value()}
	}
	for k, v := range s.Gauges() {
		c.Gauges[k] = SnapEntry{Name: v.Name(), Tags: copyTags(v.Tags()), F: f64bits(v.Value())}
	}
	for k, v := range s.Timers() {
		c.Timers[k] = SnapEntry{Name: v.Name(), Tags: copyTags(v.Tags()), Timers: append([]time.Duration(nil), v.Values()...)}
	}
	for k, v := range s.Histograms() {
		e := SnapEntry{Name: v.Name(), Tags: copyTags(v.Tags())}
		if hv := v.Values(); hv != nil {
			e.HasHV = true
			e.HV = map[uint64]int64{}
			for b, n := range hv {
				e.HV[f64bits(b+0)] += n
			}
		}
		if hd := v.Durations(); hd != nil {
			e.HasHD = true
			e.HD = map[int64]int64{}
			for b, n := range hd {
				e.HD[int64(b)] = n
			}
		}
		c.Histograms[k] = e
	}
	if keepRaw {
		c.raw = s
	}
	return c
}

var errExec = errors.New("harness: instrumented function failed")

type execResult struct {
	Calls   int
	RetSame bool
	RetNil  bool
	Slept   time.Duration
}

func (te *taskEnv) execCall(c instrument.Call, op *Op, rec *OpRec) {
	res := &execResult{}
	want := error(nil)
	if op.I != 0 {
		want = errExec
	}
	got := c.Exec(func() error {
		res.Calls++
		if op.F != 0 {
			d := time.Duration(op.F)
			res.Slept += d
			sleepSim(d)
		}
		return want
	})
	res.RetSame = got == want
	res.RetNil = got == nil
	rec.Extra = res
}

// mutateSnapshot modifies everything a caller can reach through a snapshot.
func mutateSnapshot(s tally.Snapshot) {
	for k, v := range s.Counters() {
		for tk := range v.Tags() {
			v.Tags()[tk] = "mutated"
		}
		v.Tags()["extra"] = "x"
		delete(s.Counters(), k)
	}
	for k, v := range s.Gauges() {
		for tk := range v.Tags() {
			v.Tags()[tk] = "mutated"
		}
		delete(s.Gauges(), k)
	}
	for k, v := range s.Timers() {
		vals := v.Values()
		for i := range vals {
			vals[i] = -1
		}
		for tk := range v.Tags() {
			v.Tags()[tk] = "mutated"
		}
		delete(s.Timers(), k)
	}
	for k, v := range s.Histograms() {
		for b := range v.Values() {
			v.Values()[b] = -5
		}
		for b := range v.Durations() {
			v.Durations()[b] = -5
		}
		for tk := range v.Tags() {
			v.Tags()[tk] = "mutated"
		}
		delete(s.Histograms(), k)
	}
}
