package harness

func init() {
	register(&Property{
		ID:    "C04",
		Gen:   genC04,
		Check: checkC04,
		Interest: func(env *Env) bool {
			return env.Probes.Custom["depth_ge_2"] > 0 && env.Probes.Custom["identities"] > 1
		},
	})
}

func genDerivationTask(g *Gen, c *Config, depthMax, nOps int, wDelim, wOdd int, keyPool []string) []Op {
	var ops []Op
	nextS, nextM := 1, 1
	type sv struct{ v, depth int }
	scopes := []sv{{0, 0}}
	var metrics []struct {
		m    int
		kind string
	}
	var tagOps []int
	uniq := 0
	for guard := 0; len(ops) < nOps && guard < 200; guard++ {
		switch g.weighted(5, 4, 8, 1, 1) {
		case 0: // derive
			par := scopes[g.Intn(len(scopes))]
			if g.Bool(60) {
				par = scopes[len(scopes)-1] // go deeper
			}
			if par.depth >= depthMax {
				continue
			}
			if g.Bool(50) {
				ops = append(ops, Op{K: "sub", S: par.v, D: nextS, Name: genStr(g, 10, wDelim, wOdd)})
			} else {
				m := map[string]string{}
				for i := g.Range(0, 3); i > 0; i-- {
					k := keyPool[g.Intn(len(keyPool))]
					if g.Bool(15) {
						k = genStr(g, 6, wDelim, wOdd)
					}
					m[k] = genStr(g, 10, wDelim, wOdd)
				}
				tagOps = append(tagOps, len(ops))
				ops = append(ops, Op{K: "tag", S: par.v, D: nextS, Tags: m})
			}
			scopes = append(scopes, sv{nextS, par.depth + 1})
			nextS++
		case 1: // metric
			kind := []string{"counter", "gauge", "timer", "hist"}[g.Intn(4)]
			s := scopes[g.Intn(len(scopes))]
			op := Op{K: kind, S: s.v, M: nextM, Name: genStr(g, 10, wDelim, wOdd)}
			if kind == "hist" {
				op.B = &BucketSpec{Bits: []uint64{f64bits(1), f64bits(2)}}
			}
			ops = append(ops, op)
			metrics = append(metrics, struct {
				m    int
				kind string
			}{nextM, kind})
			nextM++
		case 2: // record
			if len(metrics) == 0 {
				continue
			}
			m := metrics[g.Intn(len(metrics))]
			uniq++
			switch m.kind {
			case "counter":
				ops = append(ops, Op{K: "inc", M: m.m, I: int64(1 + g.Intn(9))})
			case "gauge":
				ops = append(ops, Op{K: "upd", M: m.m, F: f64bits(float64(uniq) + 0.5)})
			case "timer":
				ops = append(ops, Op{K: "rec", M: m.m, I: int64(uniq) * 7919})
			case "hist":
				ops = append(ops, Op{K: "recv", M: m.m, F: f64bits(1.5)})
			}
		case 3:
			if len(tagOps) > 0 {
				ops = append(ops, Op{K: "mutmap", Ref: tagOps[g.Intn(len(tagOps))]})
			}
		case 4:
			if c.IntervalNs > 0 {
				ops = append(ops, Op{K: "sleep", I: c.IntervalNs})
			} else {
				ops = append(ops, Op{K: "yield"})
			}
		}
	}
	return ops
}

func genC04(g *Gen, tier string) *Program {
	p := &Program{Prop: "C04"}
	c := &p.Cfg
	baseCfg(g, c)
	c.Faults = FaultPlan{}
	wDelim, wOdd := 0, 3
	if g.Bool(20) {
		wDelim = 2
	}
	c.Prefix = pick(g, "", "", "svc", genStr(g, 5, wDelim, wOdd))
	c.Separator = pick(g, "", "", ".", "_", "::", "é", "-")
	if g.Bool(50) {
		c.RootTags = map[string]string{}
		for i := g.Range(1, 2); i > 0; i-- {
			c.RootTags[pick(g, "env", "k", "a")] = genStr(g, 10, wDelim, wOdd)
		}
	}
	if g.Bool(30) {
		c.Sanitize = genSanOpts(g)
	}
	nOps := 10
	if tier == "thorough" {
		nOps = 18
	}
	for t := g.Range(1, 2); t > 0; t-- {
		p.Tasks = append(p.Tasks, genDerivationTask(g, c, 6, g.Range(4, nOps), wDelim, wOdd, []string{"k", "env", "a"}))
	}
	if c.Sanitize == nil && c.Prefix == "" && g.Bool(20) {
		// two different identities that an implementation keeping delimiters apart
		// with an escape character must still keep apart (see escapeTwins)
		tws := escapeTwins(g, pick(g, "svc", "x", ""), pick(g, "a", "k"), pick(g, "1", "x", ""), pick(g, "b", "m"), pick(g, "2", "y"))
		tw := tws[g.Intn(len(tws))]
		for i, d := range tw {
			i := i
			p.Tasks = append(p.Tasks, d.ops(func(s int) []Op {
				return []Op{{K: "counter", S: s, M: 1, Name: "c"}, {K: "inc", M: 1, I: int64(100 + i)},
					{K: "gauge", S: s, M: 2, Name: "g"}, {K: "upd", M: 2, F: f64bits(float64(i) + 0.25)},
					{K: "timer", S: s, M: 3, Name: "t"}, {K: "rec", M: 3, I: int64(7 + i)}}
			}))
		}
	}
	settleEpilogue(g, p)
	return p
}

// sanCollision reports identities that only exist because the sanitiser mapped
// two different caller keys of one Tagged map to the same key (then which value
// wins is not defined by the statement).
func sanKeyCollisions(env *Env, ops []*OpRec) bool {
	if env.Prog.Cfg.Sanitize == nil {
		return false
	}
	check := func(m map[string]string) bool {
		seen := map[string]bool{}
		for k := range m {
			s := env.Model.sanKey(k)
			if seen[s] {
				return true
			}
			seen[s] = true
		}
		return false
	}
	if check(env.Prog.Cfg.RootTags) {
		return true
	}
	for _, r := range ops {
		if r.Op.K == "tag" && check(r.Op.Tags) {
			return true
		}
	}
	return false
}

func checkC04(env *Env) []Violation {
	ops := env.OpsBeforeTeardown()
	var out []Violation
	out = append(out, opPanics(ops, nil)...)
	if sanKeyCollisions(env, ops) {
		return out // tag precedence inside one map after sanitising is not defined
	}
	scopes := collectScopes(ops)
	coll := collidingIdentities(env, scopes)
	skip := map[string]bool{}
	if len(coll) > 0 {
		env.Probes.inc("delimiter_collisions")
	}
	ids := map[string]bool{}
	for _, s := range scopes {
		ids[s.id] = true
		if s.sv.model.Depth >= 2 {
			env.Probes.inc("depth_ge_2")
		}
	}
	for range ids {
		env.Probes.inc("identities")
	}
	for _, r := range ops {
		if r.Err != "" && r.Op.K == "tag" {
			out = append(out, vf("caller-map-mutated", "%s", r.Err))
		}
		if mv, _ := r.Obj.(*metricVar); mv != nil && mv.AltName != "" && mv.AltName != mv.FullName {
			skip[idKey(mv.FullName, mv.Tags)] = true
			skip[idKey(mv.AltName, mv.Tags)] = true
		}
	}
	out = append(out, checkDeliveriesByIdentity(env, ops, skip)...)
	out = append(out, checkSeamStrings(env)...)
	return out
}
