package harness

import (
	"errors"
	"io"
	"time"

	tally "github.com/uber-go/tally/v4"
	"verifsim/simrt"
)

// FaultPlan configures the reporter-side faults of a run.
type FaultPlan struct {
	SlowPct   int     // F1: percent of reporter calls that sleep on the fake clock
	SlowMenu  []int64 // sleep durations (ns)
	CloseErr  bool    // F8: reporter Close returns an error
	HasCloser bool    // reporter implements io.Closer
	SendFail  []int   // F5: (m3/transport) indices of datagrams (per socket, 1-based) whose send fails
	FailFrom  int     // F5: every send from this one on fails (0 = never)
	CloseDest int     // F5: destination socket closed by the environment before this send (0 = never)
	PanicCB   bool    // F8: prometheus error callback panics
	FailDest  int     `json:",omitempty"` // F5: SendFail/FailFrom apply to this destination only (1-based; 0 = every destination)
}

var errReporterClose = errors.New("harness: reporter close error")

type seam struct {
	env *Env
}

// pre is the moment the call crosses into the reporter: a scheduling point
// before the value is recorded as delivered. (A real reporter takes its own
// lock here; two calls in flight may be processed in either order.)
func (s *seam) pre() { simrt.Point(simrt.OpYield, nil) }

func (s *seam) enter(e *Event) {
	env := s.env
	simrt.Point(simrt.OpYield, nil)
	if fp := env.Prog.Cfg.Faults; fp.SlowPct > 0 && len(fp.SlowMenu) > 0 && simrt.InTask() {
		if env.Sim.Ch.Pct(fp.SlowPct, "slow") {
			d := fp.SlowMenu[env.Sim.Ch.Choose(len(fp.SlowMenu), "slowdur")]
			env.noteSlow()
			simrt.Sleep(time.Duration(d))
		}
	}
}

// RecReporter is a recording tally.StatsReporter.
type RecReporter struct{ seam }

// RecReporterCloser additionally implements io.Closer.
type RecReporterCloser struct{ RecReporter }

type caps struct{}

func (caps) Reporting() bool { return true }
func (caps) Tagging() bool   { return true }

func (r *RecReporter) Capabilities() tally.Capabilities { return caps{} }

func (r *RecReporter) Flush() {
	r.pre()
	e := r.env.Log.begin(r.env.Sim, EvFlush, "", nil)
	r.enter(e)
	r.env.Log.end(e)
}

func (r *RecReporter) ReportCounter(name string, tags map[string]string, value int64) {
	r.pre()
	e := r.env.Log.begin(r.env.Sim, EvCounter, name, tags)
	e.I = value
	r.enter(e)
	r.env.Log.end(e)
}

func (r *RecReporter) ReportGauge(name string, tags map[string]string, value float64) {
	r.pre()
	e := r.env.Log.begin(r.env.Sim, EvGauge, name, tags)
	e.F = f64bits(value)
	r.enter(e)
	r.env.Log.end(e)
}

func (r *RecReporter) ReportTimer(name string, tags map[string]string, interval time.Duration) {
	r.pre()
	e := r.env.Log.begin(r.env.Sim, EvTimer, name, tags)
	e.I = int64(interval)
	r.enter(e)
	r.env.Log.end(e)
}

func (r *RecReporter) ReportHistogramValueSamples(name string, tags map[string]string, buckets tally.Buckets, lo, hi float64, samples int64) {
	r.pre()
	e := r.env.Log.begin(r.env.Sim, EvHVal, name, tags)
	e.Lo, e.Hi, e.I = lo, hi, samples
	e.Spec = specOf(buckets)
	r.enter(e)
	r.env.Log.end(e)
}

func (r *RecReporter) ReportHistogramDurationSamples(name string, tags map[string]string, buckets tally.Buckets, lo, hi time.Duration, samples int64) {
	r.pre()
	e := r.env.Log.begin(r.env.Sim, EvHDur, name, tags)
	e.LoD, e.HiD, e.I = lo, hi, samples
	e.Spec = specOf(buckets)
	r.enter(e)
	r.env.Log.end(e)
}

func (r *RecReporterCloser) Close() error {
	r.pre()
	e := r.env.Log.begin(r.env.Sim, EvRepClose, "", nil)
	r.enter(e)
	r.env.Log.end(e)
	if r.env.Prog.Cfg.Faults.CloseErr {
		return errReporterClose
	}
	return nil
}

// RecCached is a recording tally.CachedStatsReporter.
type RecCached struct {
	seam
	handles []*handle
	// inner, if set, receives every call after it was recorded (the recording
	// reporter then is a tap in front of a real reporter, e.g. M3).
	inner tally.CachedStatsReporter
}

// RecCachedCloser additionally implements io.Closer.
type RecCachedCloser struct{ RecCached }

type handle struct {
	inC    tally.CachedCount
	inG    tally.CachedGauge
	inT    tally.CachedTimer
	inH    tally.CachedHistogram
	inB    tally.CachedHistogramBucket
	r      *RecCached
	id     int
	kind   string
	name   string
	tags   map[string]string // copy at allocation
	parent int
	lo, hi float64
	loD    time.Duration
	hiD    time.Duration
}

func (r *RecCached) Capabilities() tally.Capabilities { return caps{} }

func (r *RecCached) Flush() {
	r.pre()
	e := r.env.Log.begin(r.env.Sim, EvFlush, "", nil)
	r.enter(e)
	if r.inner != nil {
		r.inner.Flush()
	}
	r.env.Log.end(e)
}

func (r *RecCached) alloc(kind, name string, tags map[string]string) (*handle, *Event) {
	r.pre()
	e := r.env.Log.begin(r.env.Sim, kind, name, tags)
	e.Cached = true
	h := &handle{r: r, kind: kind, name: name, tags: copyTags(tags)}
	r.addHandle(h)
	e.Handle = h.id
	return h, e
}

//go:norace
func (r *RecCached) addHandle(h *handle) {
	h.id = len(r.handles) + 1
	r.handles = simrt.AppendNR(r.handles, h)
}

func (r *RecCached) AllocateCounter(name string, tags map[string]string) tally.CachedCount {
	r.pre()
	h, e := r.alloc(EvAllocC, name, tags)
	r.enter(e)
	if r.inner != nil {
		h.inC = r.inner.AllocateCounter(name, tags)
	}
	r.env.Log.end(e)
	return h
}

func (r *RecCached) AllocateGauge(name string, tags map[string]string) tally.CachedGauge {
	r.pre()
	h, e := r.alloc(EvAllocG, name, tags)
	r.enter(e)
	if r.inner != nil {
		h.inG = r.inner.AllocateGauge(name, tags)
	}
	r.env.Log.end(e)
	return h
}

func (r *RecCached) AllocateTimer(name string, tags map[string]string) tally.CachedTimer {
	r.pre()
	h, e := r.alloc(EvAllocT, name, tags)
	r.enter(e)
	if r.inner != nil {
		h.inT = r.inner.AllocateTimer(name, tags)
	}
	r.env.Log.end(e)
	return h
}

func (r *RecCached) AllocateHistogram(name string, tags map[string]string, buckets tally.Buckets) tally.CachedHistogram {
	r.pre()
	h, e := r.alloc(EvAllocH, name, tags)
	e.Spec = specOf(buckets)
	r.enter(e)
	if r.inner != nil {
		h.inH = r.inner.AllocateHistogram(name, tags, buckets)
	}
	r.env.Log.end(e)
	return h
}

func (h *handle) ReportCount(v int64) {
	h.r.pre()
	e := h.r.env.Log.begin(h.r.env.Sim, EvCounter, h.name, h.tags)
	e.Cached, e.Handle, e.I = true, h.id, v
	h.r.enter(e)
	if h.inC != nil {
		h.inC.ReportCount(v)
	}
	h.r.env.Log.end(e)
}

func (h *handle) ReportGauge(v float64) {
	h.r.pre()
	e := h.r.env.Log.begin(h.r.env.Sim, EvGauge, h.name, h.tags)
	e.Cached, e.Handle, e.F = true, h.id, f64bits(v)
	h.r.enter(e)
	if h.inG != nil {
		h.inG.ReportGauge(v)
	}
	h.r.env.Log.end(e)
}

func (h *handle) ReportTimer(d time.Duration) {
	h.r.pre()
	e := h.r.env.Log.begin(h.r.env.Sim, EvTimer, h.name, h.tags)
	e.Cached, e.Handle, e.I = true, h.id, int64(d)
	h.r.enter(e)
	if h.inT != nil {
		h.inT.ReportTimer(d)
	}
	h.r.env.Log.end(e)
}

func (h *handle) ValueBucket(lo, hi float64) tally.CachedHistogramBucket {
	r := h.r
	r.pre()
	e := r.env.Log.begin(r.env.Sim, EvAllocVB, h.name, h.tags)
	b := &handle{r: r, kind: EvAllocVB, name: h.name, tags: h.tags, parent: h.id, lo: lo, hi: hi}
	r.addHandle(b)
	e.Cached, e.Handle, e.Parent, e.Lo, e.Hi = true, b.id, h.id, lo, hi
	r.enter(e)
	if h.inH != nil {
		b.inB = h.inH.ValueBucket(lo, hi)
	}
	r.env.Log.end(e)
	return b
}

func (h *handle) DurationBucket(lo, hi time.Duration) tally.CachedHistogramBucket {
	r := h.r
	r.pre()
	e := r.env.Log.begin(r.env.Sim, EvAllocDB, h.name, h.tags)
	b := &handle{r: r, kind: EvAllocDB, name: h.name, tags: h.tags, parent: h.id, loD: lo, hiD: hi}
	r.addHandle(b)
	e.Cached, e.Handle, e.Parent, e.LoD, e.HiD = true, b.id, h.id, lo, hi
	r.enter(e)
	if h.inH != nil {
		b.inB = h.inH.DurationBucket(lo, hi)
	}
	r.env.Log.end(e)
	return b
}

func (h *handle) ReportSamples(v int64) {
	kind := EvHVal
	if h.kind == EvAllocDB {
		kind = EvHDur
	}
	h.r.pre()
	e := h.r.env.Log.begin(h.r.env.Sim, kind, h.name, h.tags)
	e.Cached, e.Handle, e.Parent, e.I = true, h.id, h.parent, v
	e.Lo, e.Hi, e.LoD, e.HiD = h.lo, h.hi, h.loD, h.hiD
	h.r.enter(e)
	if h.inB != nil {
		h.inB.ReportSamples(v)
	}
	h.r.env.Log.end(e)
}

func (r *RecCachedCloser) Close() error {
	r.pre()
	e := r.env.Log.begin(r.env.Sim, EvRepClose, "", nil)
	r.enter(e)
	if c, ok := r.inner.(io.Closer); ok {
		c.Close()
	}
	r.env.Log.end(e)
	if r.env.Prog.Cfg.Faults.CloseErr {
		return errReporterClose
	}
	return nil
}
