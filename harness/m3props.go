package harness

import (
	"fmt"
	"math"
	"sort"
	"strconv"
	"strings"
	"time"
)

func init() {
	register(&Property{ID: "C12", Gen: genC12, Check: checkC12, Interest: func(env *Env) bool {
		return env.Probes.Custom["multi_metric_batches"] > 0 && env.Probes.Custom["packet_full_flushes"] > 0
	}})
	register(&Property{ID: "C13", Gen: genC13, Check: checkC13, Interest: func(env *Env) bool {
		return env.Probes.Custom["metrics_matched"] > 1 && env.Sim.Stats.Preemptions > 0
	}})
	register(&Property{ID: "C14", Gen: genC14, Check: checkC14, Interest: func(env *Env) bool {
		return env.Sim.Stats.Preemptions > 0 && (env.Probes.Custom["report_overlaps_close"] > 0 || env.Probes.Custom["concurrent_closers"] > 0)
	}})
}

type m3GenOpts struct {
	nameLen    []int
	maxTags    int
	tasks      [2]int
	reports    [2]int
	closers    int
	afterClose bool
	collide    bool
	smallQ     bool
	bursts     bool
	lateAlloc  int // percent of programs in which tasks allocate histograms of their own, concurrently, under one tag set
}

func genName(g *Gen, n int, salt int) string {
	base := fmt.Sprintf("m%d_", salt)
	if n <= len(base) {
		return base[:n]
	}
	return base + strings.Repeat(pick(g, "x", "y", "ab"), n)[:n-len(base)]
}

func genM3(g *Gen, p *Program, o m3GenOpts) {
	c := &p.Cfg
	c.Stack = "m3direct"
	c.CPUs = 1
	g.schedule(c, 1e8)
	c.Quanta = []int64{25e6, 1e8, 1e9}
	m := &M3Cfg{Protocol: g.Intn(2), Dests: pick(g, 1, 1, 1, 2, 3), Service: "svc", Env: "test"}
	m.MaxQueue = pick(g, 1, 2, 4, 100, 4096)
	if o.smallQ {
		m.MaxQueue = pick(g, 1, 1, 2, 3, 4)
	}
	if g.Bool(60) {
		m.CommonTags = map[string]string{}
		for i := g.Intn(5); i > 0; i-- {
			m.CommonTags[fmt.Sprintf("ct%d", i)] = pick(g, "v", "longer-value", "")
		}
	}
	c.M3 = m
	// handles allocated by the prelude are shared by all tasks
	type hd struct {
		m    int
		kind string
		spec *BucketSpec
	}
	var hs []hd
	nextM := 1
	maxMetric := 0
	nH := g.Range(2, 6)
	tagSets := []map[string]string{nil, {"a": "1"}, {"a": "1", "b": "2"}, {"env2": "x", "zone": "z1", "k": "v"}}
	if o.collide {
		tagSets = append(tagSets, map[string]string{"a": "b=c"}, map[string]string{"a=b": "c"}, map[string]string{"x": "1", "y": "2"}, map[string]string{"x": "2", "y": "1"})
	}
	for i := 0; i < nH; i++ {
		kind := pick(g, "m3ac", "m3ac", "m3ag", "m3at", "m3ah")
		nl := o.nameLen[g.Intn(len(o.nameLen))]
		name := genName(g, nl, i)
		tags := copyTags(tagSets[g.Intn(len(tagSets))])
		if o.maxTags > 3 && g.Bool(30) {
			tags = map[string]string{}
			for k := g.Range(0, o.maxTags); k > 0; k-- {
				tags[fmt.Sprintf("t%d", k)] = strings.Repeat("v", g.Range(0, 12))
			}
		}
		op := Op{K: kind, M: nextM, Name: name, Tags: tags}
		sz := 40 + len(name)
		for k, v := range tags {
			sz += len(k) + len(v) + 10
		}
		if kind == "m3ah" {
			// (value bounds 1, 2, 5 and duration bounds 1s, 2s, 5s are the same numbers:
			// whatever is kept per bucket set must not be kept per list of numbers)
			switch g.Intn(3) {
			case 0:
				op.B = &BucketSpec{Bits: []uint64{f64bits(1), f64bits(2), f64bits(5)}}
			case 1:
				op.B = &BucketSpec{Dur: true, Durs: []int64{1e9, 2e9, 5e9}}
			default:
				op.B = &BucketSpec{Dur: true, Durs: []int64{1e6, 1e9}}
			}
			sz += 80
		}
		if sz > maxMetric {
			maxMetric = sz
		}
		p.Prelude = append(p.Prelude, op)
		hs = append(hs, hd{nextM, kind, op.B})
		nextM++
	}
	// bucket handles
	var bs []hd
	for _, h := range hs {
		if h.kind != "m3ah" {
			continue
		}
		for k := g.Range(1, 3); k > 0; k-- {
			op := Op{K: "m3bucket", S: h.m, M: nextM}
			if h.spec.Dur {
				// an upper bound of the histogram's own specification (or the catch-all)
				op.I = int64(9223372036854775807)
				if i := g.Intn(len(h.spec.Durs) + 1); i < len(h.spec.Durs) {
					op.I = h.spec.Durs[i]
				}
			} else {
				op.F = f64bits(pick(g, 1.0, 2.0, 5.0, 1.7976931348623157e308))
			}
			p.Prelude = append(p.Prelude, op)
			bs = append(bs, hd{nextM, "m3b", h.spec})
			nextM++
		}
	}
	overhead := 60
	for k, v := range m.CommonTags {
		overhead += len(k) + len(v) + 10
	}
	overhead += 40 // service, env
	switch g.Intn(4) {
	case 0:
		m.MaxPacket = int32(overhead + maxMetric*2)
	case 1:
		m.MaxPacket = int32(overhead + maxMetric*g.Range(3, 12))
	case 2:
		m.MaxPacket = 1440
		if int(m.MaxPacket) < overhead+maxMetric*2 {
			m.MaxPacket = int32(overhead + maxMetric*2)
		}
	default:
		m.MaxPacket = pick(g, int32(8192), int32(32768), int32(60000))
	}
	hasReportable := len(bs) > 0
	for _, h := range hs {
		if h.kind != "m3ah" {
			hasReportable = true
		}
	}
	if !hasReportable {
		p.Prelude = append(p.Prelude, Op{K: "m3ac", M: nextM, Name: "extra"})
		hs = append(hs, hd{nextM, "m3ac", nil})
		nextM++
	}
	var reportable []hd
	for _, h := range hs {
		if h.kind != "m3ah" {
			reportable = append(reportable, h)
		}
	}
	if len(reportable) == 0 {
		reportable = bs
	}
	uniq := int64(0)
	nTasks := g.Range(o.tasks[0], o.tasks[1])
	for t := 0; t < nTasks; t++ {
		var ops []Op
		n := g.Range(o.reports[0], o.reports[1])
		burst := o.bursts && g.Bool(50)
		var burstH *hd
		if burst {
			all := append(append([]hd{}, reportable...), bs...)
			burstH = &all[g.Intn(len(all))]
			n *= 4
		}
		for i := 0; i < n; i++ {
			uniq++
			var h hd
			if burstH != nil {
				h = *burstH
			} else if len(bs) > 0 && g.Bool(30) {
				h = bs[g.Intn(len(bs))]
			} else {
				h = reportable[g.Intn(len(reportable))]
			}
			switch h.kind {
			case "m3ac":
				v := uniq*1000 + int64(t)
				if g.Bool(10) {
					v = pick(g, int64(9223372036854775807)-uniq, -uniq)
				}
				ops = append(ops, Op{K: "m3count", M: h.m, I: v})
			case "m3ag":
				ops = append(ops, Op{K: "m3gauge", M: h.m, F: f64bits(float64(uniq)*1.5 + 0.25)})
			case "m3at":
				ops = append(ops, Op{K: "m3timer", M: h.m, I: uniq*1000003 + int64(t)})
			case "m3b":
				ops = append(ops, Op{K: "m3samples", M: h.m, I: uniq*100 + int64(t)})
			default:
				continue
			}
			if g.Bool(12) {
				ops = append(ops, Op{K: "m3flush"})
			}
			if g.Bool(5) {
				ops = append(ops, Op{K: "sleep", I: pick(g, int64(5e7), int64(1e8), int64(3e8))})
			}
		}
		if o.afterClose && g.Bool(40) {
			ops = append(ops, Op{K: "m3close"})
			uniq++
			if len(hs) > 0 && hs[0].kind == "m3ac" {
				ops = append(ops, Op{K: "m3count", M: hs[0].m, I: uniq*1000 + 777})
			}
			ops = append(ops, Op{K: "m3flush"})
		}
		p.Tasks = append(p.Tasks, ops)
	}
	if o.lateAlloc > 0 && g.Bool(o.lateAlloc) {
		// Allocation is part of "any interleaving": two tasks allocate a histogram
		// each at the same time, under the same tag set (so they meet in the
		// reporter's tag cache and size calculator) but with bucket strings of very
		// different length, then report bursts of large values on their buckets.
		shared := map[string]string{"a": "1", "b": "2"}
		specs := []*BucketSpec{{Dur: true, Durs: []int64{1e6, 1e9}}, {Bits: []uint64{f64bits(1), f64bits(1e15)}}}
		for t := 0; t < 2 && t < len(p.Tasks)+1; t++ {
			hm, bm := 500+t, 510+t
			pre := []Op{{K: "m3ah", M: hm, Name: fmt.Sprintf("lh%d", t), Tags: copyTags(shared), B: specs[t]}}
			bop := Op{K: "m3bucket", S: hm, M: bm}
			if specs[t].Dur {
				bop.I = 1e9
			} else {
				bop.F = f64bits(1e15)
			}
			pre = append(pre, bop)
			for k := g.Range(4, 24); k > 0; k-- {
				uniq++
				pre = append(pre, Op{K: "m3samples", M: bm, I: 9223372036854775807 - uniq})
			}
			if t < len(p.Tasks) {
				p.Tasks[t] = append(pre, p.Tasks[t]...)
			} else {
				p.Tasks = append(p.Tasks, pre)
			}
		}
	}
	for i := 0; i < o.closers; i++ {
		if g.Bool(60) {
			var ops []Op
			for k := g.Intn(5); k > 0; k-- {
				ops = append(ops, Op{K: "yield"})
			}
			ops = append(ops, Op{K: "m3close"})
			if g.Bool(30) {
				ops = append(ops, Op{K: "m3close"})
			}
			p.Tasks = append(p.Tasks, ops)
		}
	}
	if g.Bool(50) {
		p.Epilogue = append(p.Epilogue, Op{K: "m3flush"})
	}
	p.Epilogue = append(p.Epilogue, Op{K: "m3close"})
}

func genC12(g *Gen, tier string) *Program {
	p := &Program{Prop: "C12"}
	r := [2]int{4, 14}
	if tier == "thorough" {
		r = [2]int{6, 40}
	}
	genM3(g, p, m3GenOpts{nameLen: []int{1, 3, 8, 20, 60, 200, 600}, maxTags: 8, tasks: [2]int{1, 3}, reports: r, bursts: true, lateAlloc: 25})
	if pct := map[string]int{"quick": 3, "thorough": 8}[tier]; g.Bool(pct) {
		// the top of the range: packets as large as a datagram of this transport can
		// be. One more task fills two of them with long-named counters; a packet
		// that came out larger than the reporter reckoned is refused by the
		// transport, so an under-estimate shows up as lost metrics.
		// "... up to the UDP maximum": 65 507 bytes is what a UDP datagram can carry,
		// 65 000 what this transport accepts
		p.Cfg.M3.MaxPacket = pick(g, int32(65000), int32(65000), int32(64999), int32(64000), int32(65507), int32(65001), int32(65535))
		m := 1000
		p.Prelude = append(p.Prelude, Op{K: "m3ac", M: m, Name: genName(g, pick(g, 600, 599, 587), 99), Tags: map[string]string{"a": "1"}})
		var ops []Op
		for i := 0; i < 225; i++ {
			ops = append(ops, Op{K: "m3count", M: m, I: int64(5000000 + i)})
		}
		p.Tasks = append(p.Tasks, ops)
	}
	if g.Bool(25) {
		// F5: one or two sends fail; the size bound also holds for whatever is sent
		// afterwards (a reporter that keeps or re-sends a failed batch must still
		// respect it), and a failed datagram may be lost only as a whole
		p.Cfg.Faults.SendFail = []int{g.Range(1, 3)}
		if g.Bool(30) {
			p.Cfg.Faults.SendFail = append(p.Cfg.Faults.SendFail, g.Range(2, 5))
		}
		if p.Cfg.M3.Dests > 1 && g.Bool(60) {
			p.Cfg.Faults.FailDest = g.Range(1, p.Cfg.M3.Dests)
		}
	}
	return p
}

func genC13Scope(g *Gen, tier string) *Program {
	p := &Program{Prop: "C13"}
	c := &p.Cfg
	c.Stack = "m3"
	c.CPUs = pick(g, 1, 2)
	c.IntervalNs = pick(g, int64(0), int64(1e9))
	c.OmitCard = g.Bool(50)
	g.schedule(c, c.IntervalNs)
	c.M3 = &M3Cfg{Protocol: g.Intn(2), Dests: 1, Service: "svc", Env: "test", MaxQueue: pick(g, 1, 4, 4096), MaxPacket: pick(g, int32(600), int32(1440), int32(32768))}
	if g.Bool(30) {
		c.RootTags = map[string]string{"dc": "x"}
	}
	genWorkload(g, p, wlOpts{tasks: [2]int{1, 3}, ops: [2]int{3, 10}, scopes: 2,
		wDerive: 2, wCounter: 3, wInc: 6, wGauge: 2, wUpd: 3, wTimer: 2, wRec: 3, wHist: 2, wRecH: 3, wSleep: 1, wYield: 1, ownGauge: true})
	p.Epilogue = append(p.Epilogue, Op{K: "closeroot"})
	return p
}

func genC13(g *Gen, tier string) *Program {
	if g.Bool(20) {
		return genC13Scope(g, tier)
	}
	p := &Program{Prop: "C13"}
	r := [2]int{3, 10}
	if tier == "thorough" {
		r = [2]int{4, 24}
	}
	genM3(g, p, m3GenOpts{nameLen: []int{3, 8, 20}, maxTags: pick(g, 4, 8, 12, 18), tasks: [2]int{1, 3}, reports: r, collide: true, bursts: g.Bool(30), lateAlloc: 15})
	if pct := map[string]int{"quick": 3, "thorough": 8}[tier]; g.Bool(pct) {
		// packets as large as this transport's datagrams get, filled with
		// histogram bucket samples (the metrics with the longest tags): a batch
		// that comes out larger than reckoned is refused by the transport and lost
		p.Cfg.M3.MaxPacket = pick(g, int32(60000), int32(64000))
		p.Prelude = append(p.Prelude, Op{K: "m3ah", M: 1000, Name: "bigh", Tags: map[string]string{"a": "1"}, B: &BucketSpec{Bits: []uint64{f64bits(1), f64bits(1e15)}}},
			Op{K: "m3bucket", S: 1000, M: 1001, F: f64bits(1e15)})
		var ops []Op
		for i := 0; i < 900; i++ {
			ops = append(ops, Op{K: "m3samples", M: 1001, I: int64(7000000 + i)})
		}
		p.Tasks = append(p.Tasks, ops)
	}
	if g.Bool(30) {
		p.Cfg.Faults.SendFail = []int{g.Range(1, 3)}
		if p.Cfg.M3.Dests > 1 && g.Bool(60) {
			p.Cfg.Faults.FailDest = g.Range(1, p.Cfg.M3.Dests)
		}
	}
	return p
}

func genC14(g *Gen, tier string) *Program {
	p := &Program{Prop: "C14"}
	r := [2]int{2, 8}
	if tier == "thorough" {
		r = [2]int{3, 16}
	}
	genM3(g, p, m3GenOpts{nameLen: []int{3, 8}, maxTags: 2, tasks: [2]int{1, 3}, reports: r, closers: 3, afterClose: true, smallQ: true, lateAlloc: 25})
	switch g.Intn(4) {
	case 0:
		p.Cfg.Faults.FailFrom = g.Range(1, 3)
	case 1:
		p.Cfg.Faults.CloseDest = g.Range(1, 3)
	}
	if g.Bool(12) {
		// producers that never pause: they report until a Close call has returned.
		// The run is cut over to fair scheduling early; if Close is still starved
		// then, the run ends as a livelock.
		p.Prelude = append(p.Prelude, Op{K: "m3ac", M: 900, Name: "spam_c", Tags: map[string]string{"a": "1"}})
		// (two or three of them, or a crowd: under a scheduler that picks at random
		// a Close that waits for a moment at which no producer is in the middle of
		// a call finds one soon among three producers and practically never among
		// sixteen)
		for i := pick(g, 2, 3, 3, 10, 16); i > 0; i-- {
			var ops []Op
			for k := g.Intn(3); k > 0; k-- {
				ops = append(ops, Op{K: "yield"})
			}
			p.Tasks = append(p.Tasks, append(ops, Op{K: "m3spam", M: 900}))
		}
		hasCloser := false
		for _, t := range p.Tasks {
			for _, op := range t {
				hasCloser = hasCloser || op.K == "m3close"
			}
		}
		if !hasCloser {
			p.Tasks = append(p.Tasks, []Op{{K: "yield"}, {K: "m3close"}})
		}
		p.Cfg.MaxSteps = 12000 // fair scheduling from here on; a batch emission alone is thousands of steps
		p.Cfg.Flags = map[string]int{"spam": 1}
	}
	return p
}

// ---- shared analysis ----

type m3Exp struct {
	rec   *OpRec
	h     *m3Handle
	kind  string
	i     int64
	f     uint64
	obl   int
	found int
	where []int // datagram seq where found
	order int
}

type m3Analysis struct {
	batches   []*m3Batch
	exps      []*m3Exp
	closeInv  int
	closeRet  int
	closes    []*OpRec
	out       []Violation
	wireCount int
}

func tagsKey(m map[string]string) string {
	keys := make([]string, 0, len(m))
	for k := range m {
		keys = append(keys, k)
	}
	sort.Strings(keys)
	var b strings.Builder
	for _, k := range keys {
		fmt.Fprintf(&b, "%d:%s=%d:%s;", len(k), k, len(m[k]), m[k])
	}
	return b.String()
}

func analyseM3(env *Env, faultsAllowed bool) *m3Analysis {
	a := &m3Analysis{closeInv: inf, closeRet: inf}
	st := env.m3()
	ops := env.OpsBeforeTeardown()
	a.out = append(a.out, opPanics(ops, nil)...)
	if st == nil {
		return a
	}
	end := env.teardownSeq()
	for _, r := range ops {
		if r.Op.K == "m3close" {
			a.closes = append(a.closes, r)
			if r.Inv < a.closeInv {
				a.closeInv = r.Inv
			}
			if r.Ret != 0 && r.Err == "" && r.Ret < a.closeRet {
				a.closeRet = r.Ret
			}
		}
	}
	n := 0
	for _, r := range ops {
		mv, _ := r.Obj.(*metricVar)
		if mv == nil {
			continue
		}
		h, _ := mv.obj.(*m3Handle)
		if h == nil {
			continue
		}
		e := &m3Exp{rec: r, h: h, order: n}
		switch r.Op.K {
		case "m3count":
			e.kind, e.i = "counter", r.Op.I
		case "m3samples":
			e.kind, e.i = "counter", r.Op.I
		case "m3gauge":
			e.kind, e.f = "gauge", r.Op.F
		case "m3timer":
			e.kind, e.i = "timer", r.Op.I
		default:
			continue
		}
		n++
		switch {
		case r.Ret != 0 && r.Ret < a.closeInv && r.Panic == "":
			e.obl = required
		case r.Inv > a.closeRet:
			e.obl = forbidden
		default:
			e.obl = optional
			env.Probes.inc("report_overlaps_close")
		}
		a.exps = append(a.exps, e)
	}
	// decode the datagrams of destination 0; others must be byte-identical
	perConn := map[int][]int{}
	for i, d := range env.Net.Log {
		if d.Seq < end {
			perConn[d.Conn] = append(perConn[d.Conn], i)
		}
	}
	for _, i := range perConn[0] {
		d := &env.Net.Log[i]
		b := decodeDatagram(st.cfg.Protocol, d)
		a.batches = append(a.batches, b)
	}
	if faultsAllowed {
		// with send failures the destinations may see different subsets of the
		// batches, but every datagram any of them is sent is one batch, whole and
		// alone: byte-identical to a datagram handed to destination 0's socket
		seen := map[string]bool{}
		for _, i := range perConn[0] {
			seen[string(env.Net.Log[i].Data)] = true
		}
		for c := 1; c < st.cfg.Dests; c++ {
			for _, i := range perConn[c] {
				if !seen[string(env.Net.Log[i].Data)] {
					a.out = append(a.out, vf("multi-dest", "destination %d was sent a datagram of %d bytes that is none of the batches handed to destination 0 (batches glued together or altered)", c, len(env.Net.Log[i].Data)))
					break
				}
			}
		}
	}
	if !faultsAllowed {
		for c := 1; c < st.cfg.Dests; c++ {
			if len(perConn[c]) != len(perConn[0]) {
				a.out = append(a.out, vf("multi-dest", "destination %d received %d datagrams, destination 0 received %d", c, len(perConn[c]), len(perConn[0])))
				continue
			}
			for k := range perConn[0] {
				if string(env.Net.Log[perConn[c][k]].Data) != string(env.Net.Log[perConn[0][k]].Data) {
					a.out = append(a.out, vf("multi-dest", "datagram %d differs between destination 0 and %d", k, c))
					break
				}
			}
		}
	}
	return a
}

// match associates wire metrics with reported values.
func (a *m3Analysis) match(env *Env) {
	st := env.m3()
	if st == nil {
		return
	}
	cfg := st.cfg
	idTag, bkTag := cfg.BucketIDTag, cfg.BucketName
	if idTag == "" {
		idTag = "bucketid"
	}
	if bkTag == "" {
		bkTag = "bucket"
	}
	wantCommon := copyTags(cfg.CommonTags)
	if wantCommon == nil {
		wantCommon = map[string]string{}
	}
	if wantCommon["service"] == "" {
		wantCommon["service"] = cfg.Service
	}
	if wantCommon["env"] == "" {
		wantCommon["env"] = cfg.Env
	}
	type key struct {
		kind string
		name string
		i    int64
		f    uint64
	}
	idx := map[key][]*m3Exp{}
	for _, e := range a.exps {
		k := key{e.kind, e.h.name, e.i, e.f}
		idx[k] = append(idx[k], e)
	}
	startNs := st.builtNs
	for _, b := range a.batches {
		if b.err != "" {
			a.out = append(a.out, vf("malformed-datagram", "datagram #%d (%d bytes) does not decode as one one-way emitMetricBatchV2 message: %s", b.dg.Index, len(b.dg.Data), b.err))
			continue
		}
		if tagsKey(b.common) != tagsKey(wantCommon) {
			a.out = append(a.out, vf("common-tags", "batch carries common tags %v, configured %v", b.common, wantCommon))
		}
		if len(b.metrics) > 1 {
			env.Probes.inc("multi_metric_batches")
		}
		for mi, m := range b.metrics {
			if isInternalName(m.name) || strings.HasPrefix(m.name, "spam_") {
				continue
			}
			a.wireCount++
			es := idx[key{m.kind, m.name, m.i, m.f}]
			if len(es) == 0 {
				a.out = append(a.out, vf("unknown-metric", "datagram #%d carries %s %q value %d/%v tags %v which was never reported", b.dg.Index, m.kind, m.name, m.i, f64from(m.f), m.tags))
				continue
			}
			// several reports may share kind, name and value (a counter "m" and a
			// bucket of a histogram "m" both travel as counters): attribute the wire
			// metric to one whose allocated tags it carries, if there is one; among
			// those (or, failing that, among all) to the one seen least often
			tagsFit := func(x *m3Exp) bool {
				want := copyTags(x.h.tags)
				if want == nil {
					want = map[string]string{}
				}
				if x.h.kind == "m3b" {
					want[idTag], want[bkTag] = m.tags[idTag], m.tags[bkTag]
				}
				return tagsKey(m.tags) == tagsKey(want)
			}
			var e *m3Exp
			for _, x := range es {
				if tagsFit(x) && (e == nil || x.found < e.found || (x.found == e.found && len(x.where) < len(e.where))) {
					e = x
				}
			}
			if e == nil {
				e = es[0]
				for _, x := range es {
					if x.found < e.found {
						e = x
					}
				}
			}
			if b.dg.Err == "" {
				e.found++
			}
			e.where = append(e.where, b.dg.Seq*1000+mi)
			env.Probes.inc("metrics_matched")
			// tags
			want := copyTags(e.h.tags)
			if want == nil {
				want = map[string]string{}
			}
			if e.h.kind == "m3b" {
				if m.tags[idTag] == "" || m.tags[bkTag] == "" {
					a.out = append(a.out, vf("bucket-tags", "histogram bucket metric %q lacks the %s / %s tags: %v", m.name, idTag, bkTag, m.tags))
				}
				want[idTag] = m.tags[idTag]
				want[bkTag] = m.tags[bkTag]
			}
			if m.dup || tagsKey(m.tags) != tagsKey(want) {
				a.out = append(a.out, vf("wrong-tags", "%s %q value %d/%v was allocated with tags %v but emitted with %v", m.kind, m.name, m.i, f64from(m.f), e.h.tags, m.raw))
			}
			// timestamp: from the reporter's clock, not before construction, not after the call returned
			retNs := env.Sim.StartTime().UnixNano() + int64(e.rec.RetNow)
			if e.rec.Ret == 0 {
				retNs = int64(^uint64(0) >> 1)
			}
			if m.ts < startNs || m.ts > retNs {
				a.out = append(a.out, vf("timestamp", "%s %q value %d: timestamp %d is outside [construction %d, return of the report call %d]", m.kind, m.name, m.i, m.ts, startNs, retNs))
			}
		}
	}
}

func (a *m3Analysis) exactlyOnce(env *Env, faultsAllowed bool) {
	failedHas := map[*m3Exp]bool{}
	if faultsAllowed {
		for _, e := range a.exps {
			if len(e.where) > e.found {
				failedHas[e] = true
			}
		}
	}
	for _, e := range a.exps {
		desc := fmt.Sprintf("%s %q value %d/%v tags %v", e.kind, e.h.name, e.i, f64from(e.f), e.h.tags)
		switch e.obl {
		case required:
			if e.found > 1 {
				a.out = append(a.out, vf("duplicated", "%s was reported once and emitted %d times", desc, e.found))
			} else if e.found == 0 && !failedHas[e] {
				a.out = append(a.out, vf("lost", "%s was reported before Close was called and never emitted", desc))
			}
		case optional:
			if e.found > 1 {
				a.out = append(a.out, vf("duplicated", "%s was emitted %d times", desc, e.found))
			}
		case forbidden:
			if len(e.where) > 0 {
				a.out = append(a.out, vf("emitted-after-close", "%s was reported after Close had returned and still went on the wire", desc))
			}
		}
	}
}

// checkC13Scope: a tally scope on top of the real M3 reporter. Every call the
// scope made on the reporter (recorded by the tap in front of it) must show up
// on the wire exactly once with its name, kind, value and tags.
func checkC13Scope(env *Env) []Violation {
	ops := env.OpsBeforeTeardown()
	out := opPanics(ops, nil)
	st := env.m3()
	if st == nil {
		return out
	}
	end := env.teardownSeq()
	closeSeq := inf
	for _, e := range env.Log.Events {
		if e.Kind == EvRepClose && e.Seq < closeSeq {
			closeSeq = e.Seq
		}
	}
	if closeSeq == inf || closeSeq > end {
		return out // the root was not closed by the program: no barrier to check against
	}
	type key struct {
		kind, name, tags string
		i                int64
		f                uint64
	}
	want := map[key]int{}
	idTag, bkTag := "bucketid", "bucket"
	for _, e := range env.Log.Events {
		if e.Seq > closeSeq || e.EndSeq == 0 || isInternalName(e.Name) {
			continue
		}
		switch e.Kind {
		case EvCounter:
			want[key{"counter", e.Name, tagsKey(e.Tags), e.I, 0}]++
		case EvGauge:
			want[key{"gauge", e.Name, tagsKey(e.Tags), 0, e.F}]++
		case EvTimer:
			want[key{"timer", e.Name, tagsKey(e.Tags), e.I, 0}]++
		case EvHVal, EvHDur:
			want[key{"bucket", e.Name, tagsKey(e.Tags), e.I, 0}]++
		}
	}
	got := map[key]int{}
	perConn0 := 0
	for i := range env.Net.Log {
		d := &env.Net.Log[i]
		if d.Conn != 0 {
			continue
		}
		perConn0++
		b := decodeDatagram(st.cfg.Protocol, d)
		if b.err != "" {
			out = append(out, vf("malformed-datagram", "datagram #%d does not decode: %s", d.Index, b.err))
			continue
		}
		for _, m := range b.metrics {
			if isInternalName(m.name) {
				continue
			}
			env.Probes.inc("metrics_matched")
			tags := copyTags(m.tags)
			kind := m.kind
			if _, ok := tags[idTag]; ok && kind == "counter" {
				if tags[bkTag] == "" {
					out = append(out, vf("bucket-tags", "bucket metric %q has a bucket id but no bucket range tag", m.name))
				}
				delete(tags, idTag)
				delete(tags, bkTag)
				kind = "bucket"
			}
			if m.dup {
				out = append(out, vf("wrong-tags", "%s %q emitted with duplicate tag names %v", m.kind, m.name, m.raw))
			}
			got[key{kind, m.name, tagsKey(tags), m.i, m.f}]++
		}
	}
	for k, n := range want {
		if got[k] != n {
			class := "lost"
			if got[k] > n {
				class = "duplicated"
			}
			out = append(out, vf(class, "through a scope: %s %q tags %s value %d/%v was handed to the M3 reporter %d times and emitted %d times", k.kind, k.name, k.tags, k.i, f64from(k.f), n, got[k]))
		}
	}
	for k, n := range got {
		if want[k] == 0 {
			out = append(out, vf("unknown-metric", "through a scope: %s %q tags %s value %d/%v emitted %d times but never handed to the reporter", k.kind, k.name, k.tags, k.i, f64from(k.f), n))
		}
	}
	return out
}

func checkC13(env *Env) []Violation {
	if env.Prog.Cfg.Stack == "m3" {
		return checkC13Scope(env)
	}
	faults := len(env.Prog.Cfg.Faults.SendFail) > 0 || env.Prog.Cfg.Faults.FailFrom > 0 || env.Prog.Cfg.Faults.CloseDest > 0
	a := analyseM3(env, faults)
	a.match(env)
	a.exactlyOnce(env, faults)
	// Close returns only after everything queued has been emitted
	if a.closeRet != inf {
		for _, e := range a.exps {
			if e.obl != required {
				continue
			}
			for _, w := range e.where {
				if w/1000 > a.closeRet {
					a.out = append(a.out, vf("emitted-after-close-returned", "%s %q value %d was emitted after Close had returned", e.kind, e.h.name, e.i))
				}
			}
		}
	}
	// bucket ids increase with the bounds
	type bk struct {
		upper float64
		id    string
		rng   string
		dur   bool
	}
	per := map[string][]bk{}
	st := env.m3()
	if st != nil {
		idTag := st.cfg.BucketIDTag
		if idTag == "" {
			idTag = "bucketid"
		}
		for _, b := range a.batches {
			for _, m := range b.metrics {
				for _, e := range a.exps {
					if e.h.kind == "m3b" && e.kind == m.kind && e.h.name == m.name && e.i == m.i {
						u := e.h.upper
						if e.h.parent.spec.Dur {
							u = float64(e.h.upperD)
						}
						bkTag := st.cfg.BucketName
						if bkTag == "" {
							bkTag = "bucket"
						}
						per[e.h.parent.name+tagsKey(e.h.parent.tags)] = append(per[e.h.parent.name+tagsKey(e.h.parent.tags)], bk{u, m.tags[idTag], m.tags[bkTag], e.h.parent.spec.Dur})
					}
				}
			}
		}
	}
	for name, list := range per {
		// the bucket-range tag names the bucket's own bounds, written the way its
		// kind is written: "lower-upper" with durations as durations (1s, 2m0s),
		// values as decimal numbers, and -infinity / infinity at the ends
		for _, b := range list {
			if hi, ok := rangeUpper(b.rng, b.dur); !ok {
				a.out = append(a.out, vf("bucket-range-tag", "histogram %s: the bucket-range tag %q of the bucket with upper bound %v is not a pair of %s", name, b.rng, b.upper, map[bool]string{true: "durations", false: "numbers"}[b.dur]))
				break
			} else if !(hi == b.upper || math.Abs(hi-b.upper) <= 1e-6*math.Max(1, math.Abs(b.upper)) || (math.IsInf(hi, 1) && b.upper >= math.MaxFloat64/2) || (math.IsInf(hi, 1) && b.dur && b.upper >= math.MaxInt64/2)) {
				a.out = append(a.out, vf("bucket-range-tag", "histogram %s: the bucket with upper bound %v carries the bucket-range tag %q", name, b.upper, b.rng))
				break
			}
		}
		for i := range list {
			for j := range list {
				// one bucket, one pair of bucket tags; different buckets, different tags
				if list[i].upper == list[j].upper && (list[i].id != list[j].id || list[i].rng != list[j].rng) {
					a.out = append(a.out, vf("bucket-tags-mixed", "histogram %s: two samples of the bucket with bound %v were emitted with different bucket tags (%q/%q vs %q/%q)", name, list[i].upper, list[i].id, list[i].rng, list[j].id, list[j].rng))
				}
				if list[i].upper != list[j].upper && (list[i].id == list[j].id || list[i].rng == list[j].rng) {
					a.out = append(a.out, vf("bucket-tags-mixed", "histogram %s: samples of the buckets with bounds %v and %v were emitted with the same bucket tags (%q/%q)", name, list[i].upper, list[j].upper, list[i].id, list[i].rng))
				}
				if list[i].upper < list[j].upper && !(list[i].id < list[j].id) {
					a.out = append(a.out, vf("bucket-id-order", "histogram %s: bucket with bound %v has id %q, bucket with bound %v has id %q", name, list[i].upper, list[i].id, list[j].upper, list[j].id))
				}
			}
		}
	}
	return a.out
}

// rangeUpper parses "lower-upper" as written for a value (dur=false) or a
// duration (dur=true) bucket and returns the upper bound (in the unit the
// harness keeps bounds in: the number itself, or nanoseconds).
func rangeUpper(s string, dur bool) (float64, bool) {
	one := func(x string) (float64, bool) {
		switch x {
		case "infinity":
			return math.Inf(1), true
		case "-infinity":
			return math.Inf(-1), true
		}
		if dur {
			d, err := time.ParseDuration(x)
			return float64(d), err == nil
		}
		v, err := strconv.ParseFloat(x, 64)
		return v, err == nil
	}
	for i := 1; i < len(s); i++ {
		if s[i] != '-' {
			continue
		}
		if _, ok := one(s[:i]); !ok {
			continue
		}
		if hi, ok := one(s[i+1:]); ok {
			return hi, true
		}
	}
	return 0, false
}

func checkC12(env *Env) []Violation {
	faults := len(env.Prog.Cfg.Faults.SendFail) > 0 || env.Prog.Cfg.Faults.FailFrom > 0 || env.Prog.Cfg.Faults.CloseDest > 0
	a := analyseM3(env, faults)
	a.match(env)
	a.exactlyOnce(env, faults)
	st := env.m3()
	if st == nil {
		return a.out
	}
	for _, b := range a.batches {
		// the bound is on what the reporter hands to the socket, whether or not
		// the send then succeeds
		if len(b.dg.Data) > int(st.cfg.MaxPacket) && len(b.metrics) > 1 {
			kinds := map[string]int{}
			for _, m := range b.metrics {
				k := m.kind
				if m.tags["bucketid"] != "" || m.tags["bucket"] != "" {
					k = "histogram-bucket"
				}
				kinds[k]++
			}
			a.out = append(a.out, vf("packet-too-large", "datagram of %d bytes exceeds MaxPacketSizeBytes=%d (protocol %d, %d metrics: %v, %d common tags)", len(b.dg.Data), st.cfg.MaxPacket, st.cfg.Protocol, len(b.metrics), kinds, len(b.common)))
		}
		if len(b.dg.Data)*10 > int(st.cfg.MaxPacket)*8 {
			env.Probes.inc("packet_full_flushes")
		}
	}
	// per producer the order is preserved
	perTask := map[int][]*m3Exp{}
	for _, e := range a.exps {
		if e.obl == required && e.found == 1 {
			perTask[e.rec.Task] = append(perTask[e.rec.Task], e)
		}
	}
	for task, es := range perTask {
		for i := 1; i < len(es); i++ {
			if es[i].where[0] < es[i-1].where[0] {
				a.out = append(a.out, vf("reordered", "task %d reported value %d before value %d but they were emitted in the opposite order", task, es[i-1].i, es[i].i))
				break
			}
		}
	}
	return a.out
}

func checkC14(env *Env) []Violation {
	a := analyseM3(env, true)
	a.match(env)
	// only structural checks of the matches matter here
	var out []Violation
	for _, v := range a.out {
		switch v.Class {
		case "panic", "malformed-datagram", "unknown-metric":
			out = append(out, v)
		}
	}
	okCloses := 0
	overl := 0
	for _, r := range a.closes {
		if r.Ret == 0 {
			continue
		}
		if r.Err == "" {
			okCloses++
			if l, ok := r.Extra.(*leftAtClose); ok {
				if w := l.stillAtWork(); len(w) > 0 {
					out = append(out, vf("goroutine-left", "%d goroutine(s) of the reporter had not ended when Close returned: %s", len(w), strings.Join(w, "; ")))
				}
			}
		}
		if r.Inv != a.closeInv && r.Inv < a.closeRet {
			overl++
		}
	}
	if overl > 0 {
		env.Probes.inc("concurrent_closers")
	}
	if len(a.closes) > 0 && okCloses != 1 {
		out = append(out, vf("close-results", "%d Close calls, %d of them returned nil (exactly one must, the others must return an error)", len(a.closes), okCloses))
	}
	for _, e := range a.exps {
		if e.obl == forbidden && len(e.where) > 0 {
			out = append(out, vf("emitted-after-close", "%s %q value %d was reported after Close had returned and still went on the wire", e.kind, e.h.name, e.i))
		}
	}
	if a.closeRet != inf {
		for _, b := range a.batches {
			if b.dg.Seq > a.closeRet {
				out = append(out, vf("datagram-after-close", "a datagram was sent after Close had returned"))
				break
			}
		}
	}
	return out
}
