package harness

import (
	"fmt"
	"time"

	"verifsim/simrt"
)

func sleepSim(d time.Duration) { simrt.Sleep(d) }

// M3Cfg configures the m3 stacks.
type M3Cfg struct {
	Protocol    int               `json:"protocol"`
	MaxPacket   int32             `json:"max_packet"`
	MaxQueue    int               `json:"max_queue"`
	CommonTags  map[string]string `json:"common_tags,omitempty"`
	Dests       int               `json:"dests"`
	Service     string            `json:"service"`
	Env         string            `json:"env"`
	BucketPrec  uint              `json:"bucket_prec,omitempty"`
	BucketName  string            `json:"bucket_name,omitempty"`
	BucketIDTag string            `json:"bucket_id,omitempty"`
}

// PromCfg configures the prometheus stack.
type PromCfg struct {
	TimerHistogram bool   `json:"timer_histogram,omitempty"`
	OnError        string `json:"on_error,omitempty"` // "", "none", "panic", "cfg-none", "cfg-default"
}

func (env *Env) setupExt() error {
	switch env.Prog.Cfg.Stack {
	case "none":
		return nil
	case "m3", "m3direct":
		return env.setupM3()
	case "transport":
		return env.setupTransport()
	case "prom":
		return env.setupProm()
	}
	return fmt.Errorf("unknown stack %q", env.Prog.Cfg.Stack)
}

func (env *Env) teardownExt() {
	env.teardownM3()
	env.teardownTransport()
}

func (te *taskEnv) execExt(op *Op, rec *OpRec) bool {
	switch op.K {
	case "sharedspec":
		return true // consumed by setup
	case "pairs":
		te.execPairs(op, rec)
		return true
	case "keyfn":
		te.execKeyFn(op, rec)
		return true
	case "san":
		te.execSan(op, rec)
		return true
	case "ctor":
		te.execCtor(op, rec)
		return true
	default:
		if te.execM3(op, rec) || te.execTransport(op, rec) || te.execProm(op, rec) {
			return true
		}
	}
	return false
}
