package harness

import (
	"strings"
	"unicode/utf8"

	tally "github.com/uber-go/tally/v4"
)

func init() {
	register(&Property{
		ID:    "C06",
		Gen:   genC06,
		Check: checkC06,
		Interest: func(env *Env) bool {
			return env.Probes.Custom["san_replaced"] > 0 && env.Probes.Custom["san_calls"] > 1 && (env.Sim.Stats.Preemptions > 0)
		},
	})
}

func genLongStr(g *Gen, opts *SanOpts) string {
	var b strings.Builder
	n := pick(g, 0, 1, 2, 5, 17, 64, 300, 1500, 4096)
	frag := []string{"a", "z", "A", "Z", "0", "9", "m", "n", "_", "-", ".", "é", "日", "🙂", "\xff", "\xc0", "�", " ", "{", "/", ":", "`", "@", "[", "\xe3\x81"}
	// end points of the configured ranges and their neighbours
	for _, vc := range []ValidChars{opts.Name, opts.Key, opts.Value} {
		for _, r := range vc.Ranges {
			for _, x := range []rune{r[0] - 1, r[0], r[1], r[1] + 1} {
				if x > 0 && x < 0x10ffff && utf8.ValidRune(x) {
					frag = append(frag, string(x))
				}
			}
		}
		// code points that equal an allowed extra character after truncation to
		// 7, 8 or 16 bits (table-driven implementations index by a narrower type)
		for _, c := range vc.Chars {
			for _, x := range []rune{c & 0x7f, c & 0xff, c & 0xffff} {
				if x > 0 && x != c && utf8.ValidRune(x) {
					frag = append(frag, string(x))
				}
			}
		}
	}
	valid := g.Bool(25)
	for b.Len() < n {
		f := frag[g.Intn(len(frag))]
		if valid {
			f = pick(g, "a", "b", "c")
		}
		b.WriteString(f)
	}
	return b.String()
}

func genC06(g *Gen, tier string) *Program {
	p := &Program{Prop: "C06"}
	c := &p.Cfg
	baseCfg(g, c)
	c.Faults = FaultPlan{}
	c.Sanitize = genSanOpts(g)
	c.PoolDropPct = pick(g, 0, 0, 20, 50)
	c.OmitCard = g.Bool(30)
	if g.Bool(50) {
		c.CardTags = map[string]string{genStr(g, 5, 1, 4): genStr(g, 5, 1, 4)}
	}
	c.Prefix = genStr(g, 5, 1, 4)
	c.Separator = pick(g, "", ".", "_", "::", "é", "-", "\xff")
	if g.Bool(60) {
		c.RootTags = map[string]string{genStr(g, 5, 1, 4): genStr(g, 5, 1, 4)}
	}
	// direct sanitizer calls from several tasks
	nDirect := g.Range(1, 3)
	for t := 0; t < nDirect; t++ {
		var ops []Op
		for i := g.Range(2, 7); i > 0; i-- {
			ops = append(ops, Op{K: "san", N: g.Intn(3), Str: genLongStr(g, c.Sanitize)})
		}
		p.Tasks = append(p.Tasks, ops)
	}
	// and a scope workload whose every string passes the reporter seam
	if g.Bool(70) {
		p.Tasks = append(p.Tasks, genDerivationTask(g, c, 4, g.Range(4, 10), 1, 4, []string{"k", "env", "Ключ"}))
	}
	settleEpilogue(g, p)
	return p
}

type sanResult struct {
	out, again string
}

func (te *taskEnv) execSan(op *Op, rec *OpRec) {
	env := te.env
	if env.san == nil {
		return
	}
	f := env.san.Name
	switch op.N {
	case 1:
		f = env.san.Key
	case 2:
		f = env.san.Value
	}
	res := &sanResult{}
	res.out = f(op.Str)
	res.again = f(res.out)
	rec.Extra = res
}

func runeCount(s string) int { return utf8.RuneCountInString(s) }

func checkC06(env *Env) []Violation {
	ops := env.OpsBeforeTeardown()
	var out []Violation
	out = append(out, opPanics(ops, nil)...)
	san := env.Prog.Cfg.Sanitize
	for _, r := range ops {
		if r.Op.K != "san" || r.Ret == 0 || r.Panic != "" {
			continue
		}
		res, _ := r.Extra.(*sanResult)
		if res == nil || san == nil {
			continue
		}
		env.Probes.inc("san_calls")
		vc := san.Name
		switch r.Op.N {
		case 1:
			vc = san.Key
		case 2:
			vc = san.Value
		}
		in := r.Op.Str
		want := sanitizeModel(in, vc, san.Repl)
		if want != in {
			env.Probes.inc("san_replaced")
		}
		short := func(s string) string {
			if len(s) > 80 {
				return s[:80] + "..."
			}
			return s
		}
		if res.out != want {
			// find first difference
			i := 0
			for i < len(res.out) && i < len(want) && res.out[i] == want[i] {
				i++
			}
			out = append(out, vf("sanitize-model", "sanitizing %q gave %q, the model gives %q (first difference at byte %d)", short(in), short(res.out), short(want), i))
			continue
		}
		if bad := firstInvalid(res.out, vc, san.Repl); bad != "" {
			out = append(out, vf("sanitize-charset", "sanitized output %q contains %s", short(res.out), bad))
		}
		if res.again != res.out {
			out = append(out, vf("sanitize-idempotent", "sanitizing the output %q again gave %q", short(res.out), short(res.again)))
		}
		if runeCount(res.out) != runeCount(in) {
			out = append(out, vf("sanitize-runes", "input has %d runes, output %d", runeCount(in), runeCount(res.out)))
		}
	}
	out = append(out, checkSeamStrings(env)...)
	if sanKeyCollisions(env, ops) {
		return out
	}
	skip := map[string]bool{}
	for _, r := range ops {
		if mv, _ := r.Obj.(*metricVar); mv != nil && mv.AltName != "" && mv.AltName != mv.FullName {
			skip[idKey(mv.FullName, mv.Tags)] = true
			skip[idKey(mv.AltName, mv.Tags)] = true
		}
	}
	out = append(out, checkDeliveriesByIdentity(env, ops, skip)...)
	return out
}

var _ = tally.DefaultSeparator
