// Package simuatomic has the API of go.uber.org/atomic (the part a metrics
// library plausibly uses); every operation is a scheduling point.
package simuatomic

import (
	"encoding/json"
	"math"
	"strconv"
	"sync/atomic"
	"time"
	"unsafe"

	"verifsim/simrt"
)

func pt(p unsafe.Pointer) { simrt.Point(simrt.OpAtomic, p) }

// Value is atomic.Value.
type Value struct{ v atomic.Value }

func (v *Value) Load() interface{}              { pt(unsafe.Pointer(v)); return v.v.Load() }
func (v *Value) Store(x interface{})            { pt(unsafe.Pointer(v)); v.v.Store(x) }
func (v *Value) Swap(x interface{}) interface{} { pt(unsafe.Pointer(v)); return v.v.Swap(x) }
func (v *Value) CompareAndSwap(o, n interface{}) bool {
	pt(unsafe.Pointer(v))
	return v.v.CompareAndSwap(o, n)
}

// Bool is an atomic bool.
type Bool struct{ v atomic.Uint32 }

func b2i(b bool) uint32 {
	if b {
		return 1
	}
	return 0
}

func NewBool(val bool) *Bool       { b := &Bool{}; b.v.Store(b2i(val)); return b }
func (b *Bool) Load() bool         { pt(unsafe.Pointer(b)); return b.v.Load() == 1 }
func (b *Bool) Store(val bool)     { pt(unsafe.Pointer(b)); b.v.Store(b2i(val)) }
func (b *Bool) Swap(val bool) bool { pt(unsafe.Pointer(b)); return b.v.Swap(b2i(val)) == 1 }
func (b *Bool) CAS(o, n bool) bool { return b.CompareAndSwap(o, n) }
func (b *Bool) CompareAndSwap(o, n bool) bool {
	pt(unsafe.Pointer(b))
	return b.v.CompareAndSwap(b2i(o), b2i(n))
}
func (b *Bool) Toggle() bool {
	for {
		old := b.Load()
		if b.CAS(old, !old) {
			return old
		}
	}
}
func (b *Bool) String() string               { return strconv.FormatBool(b.v.Load() == 1) }
func (b *Bool) MarshalJSON() ([]byte, error) { return json.Marshal(b.v.Load() == 1) }
func (b *Bool) UnmarshalJSON(d []byte) error {
	var v bool
	if err := json.Unmarshal(d, &v); err != nil {
		return err
	}
	b.v.Store(b2i(v))
	return nil
}

// Float64 is an atomic float64.
type Float64 struct{ v atomic.Uint64 }

func NewFloat64(val float64) *Float64 { f := &Float64{}; f.v.Store(math.Float64bits(val)); return f }
func (f *Float64) Load() float64      { pt(unsafe.Pointer(f)); return math.Float64frombits(f.v.Load()) }
func (f *Float64) Store(val float64)  { pt(unsafe.Pointer(f)); f.v.Store(math.Float64bits(val)) }
func (f *Float64) Swap(val float64) float64 {
	pt(unsafe.Pointer(f))
	return math.Float64frombits(f.v.Swap(math.Float64bits(val)))
}
func (f *Float64) CAS(o, n float64) bool { return f.CompareAndSwap(o, n) }
func (f *Float64) CompareAndSwap(o, n float64) bool {
	pt(unsafe.Pointer(f))
	return f.v.CompareAndSwap(math.Float64bits(o), math.Float64bits(n))
}
func (f *Float64) Add(d float64) float64 {
	for {
		old := f.Load()
		nw := old + d
		if f.CAS(old, nw) {
			return nw
		}
	}
}
func (f *Float64) Sub(d float64) float64 { return f.Add(-d) }
func (f *Float64) String() string {
	return strconv.FormatFloat(math.Float64frombits(f.v.Load()), 'g', -1, 64)
}

// Duration is an atomic time.Duration.
type Duration struct{ v atomic.Int64 }

func NewDuration(val time.Duration) *Duration { d := &Duration{}; d.v.Store(int64(val)); return d }
func (d *Duration) Load() time.Duration       { pt(unsafe.Pointer(d)); return time.Duration(d.v.Load()) }
func (d *Duration) Store(val time.Duration)   { pt(unsafe.Pointer(d)); d.v.Store(int64(val)) }
func (d *Duration) Add(x time.Duration) time.Duration {
	pt(unsafe.Pointer(d))
	return time.Duration(d.v.Add(int64(x)))
}
func (d *Duration) Sub(x time.Duration) time.Duration { return d.Add(-x) }
func (d *Duration) Swap(val time.Duration) time.Duration {
	pt(unsafe.Pointer(d))
	return time.Duration(d.v.Swap(int64(val)))
}
func (d *Duration) CAS(o, n time.Duration) bool { return d.CompareAndSwap(o, n) }
func (d *Duration) CompareAndSwap(o, n time.Duration) bool {
	pt(unsafe.Pointer(d))
	return d.v.CompareAndSwap(int64(o), int64(n))
}
func (d *Duration) String() string { return time.Duration(d.v.Load()).String() }

// String is an atomic string.
type String struct{ v atomic.Value }

func NewString(val string) *String { s := &String{}; s.v.Store(val); return s }
func (s *String) Load() string {
	pt(unsafe.Pointer(s))
	if x := s.v.Load(); x != nil {
		return x.(string)
	}
	return ""
}
func (s *String) Store(val string) { pt(unsafe.Pointer(s)); s.v.Store(val) }
func (s *String) Swap(val string) string {
	pt(unsafe.Pointer(s))
	if x := s.v.Swap(val); x != nil {
		return x.(string)
	}
	return ""
}
func (s *String) String() string {
	if x := s.v.Load(); x != nil {
		return x.(string)
	}
	return ""
}

// Error is an atomic error.
type Error struct{ v atomic.Value }

type packedError struct{ e error }

func NewError(val error) *Error { e := &Error{}; e.v.Store(packedError{val}); return e }
func (e *Error) Load() error {
	pt(unsafe.Pointer(e))
	if x := e.v.Load(); x != nil {
		return x.(packedError).e
	}
	return nil
}
func (e *Error) Store(val error) { pt(unsafe.Pointer(e)); e.v.Store(packedError{val}) }

// Pointer is an atomic pointer.
type Pointer[T any] struct{ v atomic.Pointer[T] }

func NewPointer[T any](x *T) *Pointer[T] { p := &Pointer[T]{}; p.v.Store(x); return p }
func (p *Pointer[T]) Load() *T           { pt(unsafe.Pointer(p)); return p.v.Load() }
func (p *Pointer[T]) Store(x *T)         { pt(unsafe.Pointer(p)); p.v.Store(x) }
func (p *Pointer[T]) Swap(x *T) *T       { pt(unsafe.Pointer(p)); return p.v.Swap(x) }
func (p *Pointer[T]) CompareAndSwap(o, n *T) bool {
	pt(unsafe.Pointer(p))
	return p.v.CompareAndSwap(o, n)
}

// Int32 is an atomic int32.
type Int32 struct{ v atomic.Int32 }

func NewInt32(val int32) *Int32      { x := &Int32{}; x.v.Store(val); return x }
func (x *Int32) Load() int32         { pt(unsafe.Pointer(x)); return x.v.Load() }
func (x *Int32) Store(v int32)       { pt(unsafe.Pointer(x)); x.v.Store(v) }
func (x *Int32) Add(d int32) int32   { pt(unsafe.Pointer(x)); return x.v.Add(d) }
func (x *Int32) Sub(d int32) int32   { pt(unsafe.Pointer(x)); return x.v.Add(-d) }
func (x *Int32) Inc() int32          { return x.Add(1) }
func (x *Int32) Dec() int32          { return x.Sub(1) }
func (x *Int32) Swap(v int32) int32  { pt(unsafe.Pointer(x)); return x.v.Swap(v) }
func (x *Int32) CAS(o, n int32) bool { return x.CompareAndSwap(o, n) }
func (x *Int32) CompareAndSwap(o, n int32) bool {
	pt(unsafe.Pointer(x))
	return x.v.CompareAndSwap(o, n)
}
func (x *Int32) String() string               { return strconv.FormatInt(int64(x.v.Load()), 10) }
func (x *Int32) MarshalJSON() ([]byte, error) { return json.Marshal(x.v.Load()) }
func (x *Int32) UnmarshalJSON(d []byte) error {
	var v int32
	if err := json.Unmarshal(d, &v); err != nil {
		return err
	}
	x.v.Store(v)
	return nil
}

// Int64 is an atomic int64.
type Int64 struct{ v atomic.Int64 }

func NewInt64(val int64) *Int64      { x := &Int64{}; x.v.Store(val); return x }
func (x *Int64) Load() int64         { pt(unsafe.Pointer(x)); return x.v.Load() }
func (x *Int64) Store(v int64)       { pt(unsafe.Pointer(x)); x.v.Store(v) }
func (x *Int64) Add(d int64) int64   { pt(unsafe.Pointer(x)); return x.v.Add(d) }
func (x *Int64) Sub(d int64) int64   { pt(unsafe.Pointer(x)); return x.v.Add(-d) }
func (x *Int64) Inc() int64          { return x.Add(1) }
func (x *Int64) Dec() int64          { return x.Sub(1) }
func (x *Int64) Swap(v int64) int64  { pt(unsafe.Pointer(x)); return x.v.Swap(v) }
func (x *Int64) CAS(o, n int64) bool { return x.CompareAndSwap(o, n) }
func (x *Int64) CompareAndSwap(o, n int64) bool {
	pt(unsafe.Pointer(x))
	return x.v.CompareAndSwap(o, n)
}
func (x *Int64) String() string               { return strconv.FormatInt(int64(x.v.Load()), 10) }
func (x *Int64) MarshalJSON() ([]byte, error) { return json.Marshal(x.v.Load()) }
func (x *Int64) UnmarshalJSON(d []byte) error {
	var v int64
	if err := json.Unmarshal(d, &v); err != nil {
		return err
	}
	x.v.Store(v)
	return nil
}

// Uint32 is an atomic uint32.
type Uint32 struct{ v atomic.Uint32 }

func NewUint32(val uint32) *Uint32     { x := &Uint32{}; x.v.Store(val); return x }
func (x *Uint32) Load() uint32         { pt(unsafe.Pointer(x)); return x.v.Load() }
func (x *Uint32) Store(v uint32)       { pt(unsafe.Pointer(x)); x.v.Store(v) }
func (x *Uint32) Add(d uint32) uint32  { pt(unsafe.Pointer(x)); return x.v.Add(d) }
func (x *Uint32) Sub(d uint32) uint32  { pt(unsafe.Pointer(x)); return x.v.Add(-d) }
func (x *Uint32) Inc() uint32          { return x.Add(1) }
func (x *Uint32) Dec() uint32          { return x.Sub(1) }
func (x *Uint32) Swap(v uint32) uint32 { pt(unsafe.Pointer(x)); return x.v.Swap(v) }
func (x *Uint32) CAS(o, n uint32) bool { return x.CompareAndSwap(o, n) }
func (x *Uint32) CompareAndSwap(o, n uint32) bool {
	pt(unsafe.Pointer(x))
	return x.v.CompareAndSwap(o, n)
}
func (x *Uint32) String() string               { return strconv.FormatInt(int64(x.v.Load()), 10) }
func (x *Uint32) MarshalJSON() ([]byte, error) { return json.Marshal(x.v.Load()) }
func (x *Uint32) UnmarshalJSON(d []byte) error {
	var v uint32
	if err := json.Unmarshal(d, &v); err != nil {
		return err
	}
	x.v.Store(v)
	return nil
}

// Uint64 is an atomic uint64.
type Uint64 struct{ v atomic.Uint64 }

func NewUint64(val uint64) *Uint64     { x := &Uint64{}; x.v.Store(val); return x }
func (x *Uint64) Load() uint64         { pt(unsafe.Pointer(x)); return x.v.Load() }
func (x *Uint64) Store(v uint64)       { pt(unsafe.Pointer(x)); x.v.Store(v) }
func (x *Uint64) Add(d uint64) uint64  { pt(unsafe.Pointer(x)); return x.v.Add(d) }
func (x *Uint64) Sub(d uint64) uint64  { pt(unsafe.Pointer(x)); return x.v.Add(-d) }
func (x *Uint64) Inc() uint64          { return x.Add(1) }
func (x *Uint64) Dec() uint64          { return x.Sub(1) }
func (x *Uint64) Swap(v uint64) uint64 { pt(unsafe.Pointer(x)); return x.v.Swap(v) }
func (x *Uint64) CAS(o, n uint64) bool { return x.CompareAndSwap(o, n) }
func (x *Uint64) CompareAndSwap(o, n uint64) bool {
	pt(unsafe.Pointer(x))
	return x.v.CompareAndSwap(o, n)
}
func (x *Uint64) String() string               { return strconv.FormatInt(int64(x.v.Load()), 10) }
func (x *Uint64) MarshalJSON() ([]byte, error) { return json.Marshal(x.v.Load()) }
func (x *Uint64) UnmarshalJSON(d []byte) error {
	var v uint64
	if err := json.Unmarshal(d, &v); err != nil {
		return err
	}
	x.v.Store(v)
	return nil
}

// Uintptr is an atomic uintptr.
type Uintptr struct{ v atomic.Uintptr }

func NewUintptr(val uintptr) *Uintptr     { x := &Uintptr{}; x.v.Store(val); return x }
func (x *Uintptr) Load() uintptr          { pt(unsafe.Pointer(x)); return x.v.Load() }
func (x *Uintptr) Store(v uintptr)        { pt(unsafe.Pointer(x)); x.v.Store(v) }
func (x *Uintptr) Add(d uintptr) uintptr  { pt(unsafe.Pointer(x)); return x.v.Add(d) }
func (x *Uintptr) Sub(d uintptr) uintptr  { pt(unsafe.Pointer(x)); return x.v.Add(-d) }
func (x *Uintptr) Inc() uintptr           { return x.Add(1) }
func (x *Uintptr) Dec() uintptr           { return x.Sub(1) }
func (x *Uintptr) Swap(v uintptr) uintptr { pt(unsafe.Pointer(x)); return x.v.Swap(v) }
func (x *Uintptr) CAS(o, n uintptr) bool  { return x.CompareAndSwap(o, n) }
func (x *Uintptr) CompareAndSwap(o, n uintptr) bool {
	pt(unsafe.Pointer(x))
	return x.v.CompareAndSwap(o, n)
}
func (x *Uintptr) String() string               { return strconv.FormatInt(int64(x.v.Load()), 10) }
func (x *Uintptr) MarshalJSON() ([]byte, error) { return json.Marshal(x.v.Load()) }
func (x *Uintptr) UnmarshalJSON(d []byte) error {
	var v uintptr
	if err := json.Unmarshal(d, &v); err != nil {
		return err
	}
	x.v.Store(v)
	return nil
}
