package harness

import (
	"fmt"
	"io"
	"math"
	"reflect"
	"runtime"
	"runtime/debug"
	"time"

	tally "github.com/uber-go/tally/v4"
	"github.com/uber-go/tally/v4/instrument"
	"verifsim/simrt"
)

func f64bits(v float64) uint64     { return math.Float64bits(v) }
func f64from(b uint64) float64     { return math.Float64frombits(b) }
func durOf(ns int64) time.Duration { return time.Duration(ns) }

// BucketSpec is a JSON-able tally.Buckets value.
type BucketSpec struct {
	Dur  bool     `json:"dur,omitempty"`
	Bits []uint64 `json:"bits,omitempty"` // float64 bits (value buckets)
	Durs []int64  `json:"durs,omitempty"` // nanoseconds (duration buckets)
	Nil  bool     `json:"nil,omitempty"`  // pass a nil Buckets (scope defaults)
}

// Buckets builds the tally value. Every call returns a fresh slice.
func (b *BucketSpec) Buckets() tally.Buckets {
	if b == nil || b.Nil {
		return nil
	}
	if b.Dur {
		out := make(tally.DurationBuckets, len(b.Durs))
		for i, d := range b.Durs {
			out[i] = time.Duration(d)
		}
		return out
	}
	out := make(tally.ValueBuckets, len(b.Bits))
	for i, x := range b.Bits {
		out[i] = f64from(x)
	}
	return out
}

// empty reports a specification that is not nil but has no bounds.
func (b *BucketSpec) empty() bool {
	return b != nil && !b.Nil && len(b.Bits) == 0 && len(b.Durs) == 0
}

func specOf(b tally.Buckets) *BucketSpec {
	switch v := b.(type) {
	case nil:
		return &BucketSpec{Nil: true}
	case tally.DurationBuckets:
		s := &BucketSpec{Dur: true}
		for _, d := range v {
			s.Durs = append(s.Durs, int64(d))
		}
		return s
	case tally.ValueBuckets:
		s := &BucketSpec{}
		for _, x := range v {
			s.Bits = append(s.Bits, f64bits(x))
		}
		return s
	}
	return &BucketSpec{Nil: true}
}

// SanOpts is a JSON-able tally.SanitizeOptions.
type SanOpts struct {
	Name, Key, Value ValidChars
	Repl             rune
}

// ValidChars mirrors tally.ValidCharacters.
type ValidChars struct {
	Ranges [][2]rune `json:"r,omitempty"`
	Chars  []rune    `json:"c,omitempty"`
}

func (v ValidChars) tally() tally.ValidCharacters {
	out := tally.ValidCharacters{Characters: append([]rune(nil), v.Chars...)}
	for _, r := range v.Ranges {
		out.Ranges = append(out.Ranges, tally.SanitizeRange{r[0], r[1]})
	}
	return out
}

// Tally converts to the library type.
func (s *SanOpts) Tally() *tally.SanitizeOptions {
	if s == nil {
		return nil
	}
	return &tally.SanitizeOptions{NameCharacters: s.Name.tally(), KeyCharacters: s.Key.tally(), ValueCharacters: s.Value.tally(), ReplacementCharacter: s.Repl}
}

// Config is the seeded configuration of a run. It is stored verbatim in replay files.
type Config struct {
	Stack      string            `json:"stack"`
	IntervalNs int64             `json:"interval_ns"`
	CPUs       int               `json:"cpus"`
	Prefix     string            `json:"prefix,omitempty"`
	Separator  string            `json:"separator,omitempty"`
	RootTags   map[string]string `json:"root_tags,omitempty"`
	Sanitize   *SanOpts          `json:"sanitize,omitempty"`
	OmitCard   bool              `json:"omit_card,omitempty"`
	CardTags   map[string]string `json:"card_tags,omitempty"`
	DefBuckets *BucketSpec       `json:"def_buckets,omitempty"`
	Faults     FaultPlan         `json:"faults"`

	Strategy    int     `json:"strategy"`
	PStay       int     `json:"pstay,omitempty"`
	PContention int     `json:"pcontention,omitempty"`
	PCTDepth    int     `json:"pct_depth,omitempty"`
	PCTHorizon  int     `json:"pct_horizon,omitempty"`
	PAdvance    int     `json:"padvance,omitempty"`
	Quanta      []int64 `json:"quanta,omitempty"`
	PoolDropPct int     `json:"pool_drop,omitempty"`
	PStall      int     `json:"pstall,omitempty"` // F2: per-mille chance of a long preemption at a scheduling decision
	MaxSteps    int     `json:"max_steps,omitempty"`
	// WallSteps: [at, delta] in ns of simulated time; the wall clock (not the
	// monotonic clock) jumps by delta at that time
	WallSteps [][2]int64 `json:"wall_steps,omitempty"`

	M3   *M3Cfg   `json:"m3,omitempty"`
	Prom *PromCfg `json:"prom,omitempty"`
	// Flags are property-specific switches.
	Flags map[string]int `json:"flags,omitempty"`
}

// Op is one operation of a program.
type Op struct {
	K    string            `json:"k"`
	S    int               `json:"s,omitempty"`
	D    int               `json:"d,omitempty"`
	M    int               `json:"m,omitempty"`
	Name string            `json:"name,omitempty"`
	Tags map[string]string `json:"tags,omitempty"`
	I    int64             `json:"i,omitempty"`
	F    uint64            `json:"f,omitempty"`
	B    *BucketSpec       `json:"b,omitempty"`
	Ref  int               `json:"ref,omitempty"`
	Data []byte            `json:"data,omitempty"`
	N    int               `json:"n,omitempty"`
	Str  string            `json:"str,omitempty"`
}

func (o *Op) String() string {
	s := o.K
	if o.S != 0 || o.K == "sub" || o.K == "tag" {
		s += fmt.Sprintf(" s%d", o.S)
	}
	if o.D != 0 {
		s += fmt.Sprintf(" ->s%d", o.D)
	}
	if o.M != 0 {
		s += fmt.Sprintf(" m%d", o.M)
	}
	if o.Name != "" {
		s += fmt.Sprintf(" %q", o.Name)
	}
	if o.Tags != nil {
		s += fmt.Sprintf(" %v", o.Tags)
	}
	if o.I != 0 {
		s += fmt.Sprintf(" i=%d", o.I)
	}
	if o.F != 0 {
		s += fmt.Sprintf(" f=%v", f64from(o.F))
	}
	if o.N != 0 {
		s += fmt.Sprintf(" n=%d", o.N)
	}
	return s
}

// Program is what a run executes: a prelude on the main task, concurrent
// tasks, and an epilogue on the main task after all tasks have joined.
type Program struct {
	Prop     string `json:"prop"`
	Cfg      Config `json:"cfg"`
	Prelude  []Op   `json:"prelude,omitempty"`
	Tasks    [][]Op `json:"tasks"`
	Epilogue []Op   `json:"epilogue,omitempty"`
}

// NumOps counts operations.
func (p *Program) NumOps() int {
	n := len(p.Prelude) + len(p.Epilogue)
	for _, t := range p.Tasks {
		n += len(t)
	}
	return n
}

// ScopeModel is the reference model's view of a scope variable.
type ScopeModel struct {
	Prefix string
	Tags   map[string]string
	// AltPrefix is the second accepted reading when an empty subscope name was
	// appended to an empty prefix (see DESIGN section 6, C04 fine print).
	AltPrefix string
	HasAlt    bool
	Depth     int
}

type scopeVar struct {
	sc     tally.Scope
	ptr    uintptr
	model  *ScopeModel
	def    *OpRec
	parent *scopeVar
	isNoop bool
}

type metricVar struct {
	obj      interface{}
	kind     string // counter gauge timer hist
	name     string // as given by the program (unsanitised)
	scope    *scopeVar
	ptr      uintptr
	def      *OpRec
	spec     *BucketSpec
	FullName string // model
	AltName  string
	Tags     map[string]string
}

func (m *metricVar) idKeys() []string {
	k := []string{idKey(m.FullName, m.Tags)}
	if m.AltName != "" && m.AltName != m.FullName {
		k = append(k, idKey(m.AltName, m.Tags))
	}
	return k
}

type taskEnv struct {
	env     *Env
	idx     int // -1 = main
	scopes  map[int]*scopeVar
	metrics map[int]*metricVar
	sw      map[int]tally.Stopwatch
	swStart map[int][2]time.Duration
	maps    map[int]map[string]string // caller-owned tag maps by op index
	calls   map[int]instrument.Call
	// the task's own reusable bucket slices (hist ops with n=-1): the caller
	// overwrites one backing array with each new specification, as code that
	// builds its bucket sets in a scratch slice does
	bufV   tally.ValueBuckets
	bufD   tally.DurationBuckets
	reused int
}

// reuseBuf writes the specification into the task's scratch slice (same backing
// array as long as the length fits) and returns that slice.
func (te *taskEnv) reuseBuf(b *BucketSpec) tally.Buckets {
	if b.Dur {
		if cap(te.bufD) < len(b.Durs) {
			te.bufD = make(tally.DurationBuckets, len(b.Durs), len(b.Durs)+4)
		} else {
			te.reused++
		}
		te.bufD = te.bufD[:len(b.Durs)]
		for i, d := range b.Durs {
			te.bufD[i] = time.Duration(d)
		}
		return te.bufD
	}
	if cap(te.bufV) < len(b.Bits) {
		te.bufV = make(tally.ValueBuckets, len(b.Bits), len(b.Bits)+4)
	} else {
		te.reused++
	}
	te.bufV = te.bufV[:len(b.Bits)]
	for i, x := range b.Bits {
		te.bufV[i] = f64from(x)
	}
	return te.bufV
}

func objPtr(x interface{}) uintptr {
	if x == nil {
		return 0
	}
	v := reflect.ValueOf(x)
	switch v.Kind() {
	case reflect.Ptr, reflect.Map, reflect.Chan, reflect.Func, reflect.UnsafePointer, reflect.Slice:
		return v.Pointer()
	}
	return 0
}

func (te *taskEnv) clone(idx int) *taskEnv {
	n := &taskEnv{env: te.env, idx: idx, scopes: map[int]*scopeVar{}, metrics: map[int]*metricVar{}, sw: map[int]tally.Stopwatch{}, swStart: map[int][2]time.Duration{}, maps: map[int]map[string]string{}, calls: map[int]instrument.Call{}}
	for k, v := range te.scopes {
		n.scopes[k] = v
	}
	for k, v := range te.metrics {
		n.metrics[k] = v
	}
	for k, v := range te.calls {
		n.calls[k] = v
	}
	return n
}

func (te *taskEnv) runOps(ops []Op) {
	for i := range ops {
		te.runOp(i, &ops[i])
		if te.env.abort {
			return
		}
	}
}

func (te *taskEnv) runOp(i int, op *Op) {
	env := te.env
	rec := &OpRec{Task: te.idx, Idx: i, Op: op, Sim: simrt.SelfID()}
	env.Log.addOp(rec)
	rec.Inv = env.Log.Next()
	rec.InvNow = env.Sim.Elapsed()
	defer func() {
		if r := recover(); r != nil {
			rec.Panic = fmt.Sprint(r)
			if rec.Panic == "" {
				rec.Panic = "panic"
			}
			rec.PanicVal = r
			_, rec.PanicRT = r.(runtime.Error)
			rec.Extra = string(debug.Stack())
		}
		rec.RetNow = env.Sim.Elapsed()
		rec.Ret = env.Log.Next()
	}()
	te.exec(op, rec)
}

func (te *taskEnv) scope(i int) *scopeVar { return te.scopes[i] }

func (te *taskEnv) exec(op *Op, rec *OpRec) {
	env := te.env
	switch op.K {
	case "sub", "tag":
		s := te.scope(op.S)
		if s == nil || s.sc == nil {
			return
		}
		var sc tally.Scope
		var model *ScopeModel
		if op.K == "sub" {
			sc = s.sc.SubScope(op.Name)
			model = env.Model.Sub(s.model, op.Name)
		} else {
			m := copyTags(op.Tags) // the caller's own map
			te.maps[rec.Idx] = m
			sc = s.sc.Tagged(m)
			model = env.Model.Tagged(s.model, op.Tags)
			if !reflect.DeepEqual(m, op.Tags) && !(len(m) == 0 && len(op.Tags) == 0) {
				rec.Err = fmt.Sprintf("caller map mutated by Tagged: %v -> %v", op.Tags, m)
			}
		}
		sv := &scopeVar{sc: sc, ptr: objPtr(sc), model: model, def: rec, parent: s, isNoop: objPtr(sc) == env.noopPtr}
		rec.Ptr, rec.Obj = sv.ptr, sv
		te.scopes[op.D] = sv
	case "counter", "gauge", "timer", "hist":
		s := te.scope(op.S)
		if s == nil || s.sc == nil {
			return
		}
		mv := &metricVar{kind: op.K, name: op.Name, scope: s, def: rec, spec: op.B}
		mv.FullName, mv.AltName = env.Model.MetricName(s.model, op.Name)
		mv.Tags = s.model.Tags
		var caller tally.Buckets
		switch op.K {
		case "counter":
			mv.obj = s.sc.Counter(op.Name)
		case "gauge":
			mv.obj = s.sc.Gauge(op.Name)
		case "timer":
			mv.obj = s.sc.Timer(op.Name)
		case "hist":
			if op.N > 0 && op.N <= len(env.sharedSpecs) {
				caller = env.sharedSpecs[op.N-1]
			} else if op.Str == "empty" {
				caller = tally.ValueBuckets{}
			} else if op.N == -1 && op.B != nil && !op.B.Nil {
				n0 := te.reused
				caller = te.reuseBuf(op.B)
				if te.reused > n0 {
					rec.Extra = "caller-slice-reused"
				}
			} else {
				caller = op.B.Buckets()
			}
			mv.obj = s.sc.Histogram(op.Name, caller)
			if caller != nil && op.Str != "empty" && !reflect.DeepEqual(specOf(caller), specOfShared(env, op)) {
				rec.Err = "caller's bucket slice modified by Histogram()"
			}
		}
		mv.ptr = objPtr(mv.obj)
		rec.Ptr, rec.Obj = mv.ptr, mv
		te.metrics[op.M] = mv
	case "inc":
		if mv := te.metrics[op.M]; mv != nil && mv.kind == "counter" {
			rec.Obj, rec.Ptr = mv, mv.ptr
			mv.obj.(tally.Counter).Inc(op.I)
		}
	case "upd":
		if mv := te.metrics[op.M]; mv != nil && mv.kind == "gauge" {
			rec.Obj, rec.Ptr = mv, mv.ptr
			// N > 1: a burst, the update is the last of N (the others carry values
			// no other operation uses)
			for i := 1; i < op.N; i++ {
				mv.obj.(tally.Gauge).Update(float64(i) + 0.0625)
			}
			mv.obj.(tally.Gauge).Update(f64from(op.F))
		}
	case "updspam":
		// an updater that does not stop: once some task has called the root's Close
		// it keeps updating its gauge until a Close call has returned. Whether
		// Close returns must not depend on the updaters pausing.
		if mv := te.metrics[op.M]; mv != nil && mv.kind == "gauge" {
			rec.Obj, rec.Ptr = mv, mv.ptr
			for i := 0; i < 300 && !env.isRootCloseInvoked(); i++ {
				simrt.Yield()
			}
			if !env.isRootCloseInvoked() {
				return // nobody closes in this program
			}
			for i := 0; !env.isRootClosed(); i++ {
				mv.obj.(tally.Gauge).Update(float64(i) + 0.03125)
				simrt.Yield() // a scheduling point even if Update has none of its own
			}
		}
	case "rec":
		if mv := te.metrics[op.M]; mv != nil && mv.kind == "timer" {
			rec.Obj, rec.Ptr = mv, mv.ptr
			mv.obj.(tally.Timer).Record(time.Duration(op.I))
		}
	case "recv":
		if mv := te.metrics[op.M]; mv != nil && mv.kind == "hist" {
			rec.Obj, rec.Ptr = mv, mv.ptr
			mv.obj.(tally.Histogram).RecordValue(f64from(op.F))
		}
	case "recd":
		if mv := te.metrics[op.M]; mv != nil && mv.kind == "hist" {
			rec.Obj, rec.Ptr = mv, mv.ptr
			mv.obj.(tally.Histogram).RecordDuration(time.Duration(op.I))
		}
	case "start":
		if mv := te.metrics[op.M]; mv != nil && (mv.kind == "timer" || mv.kind == "hist") {
			rec.Obj, rec.Ptr = mv, mv.ptr
			before := env.Sim.Elapsed()
			var sw tally.Stopwatch
			if mv.kind == "timer" {
				sw = mv.obj.(tally.Timer).Start()
			} else {
				sw = mv.obj.(tally.Histogram).Start()
			}
			te.sw[op.N] = sw
			te.swStart[op.N] = [2]time.Duration{before, env.Sim.Elapsed()}
		}
	case "stop":
		if sw, ok := te.sw[op.N]; ok {
			if mv := te.metrics[op.M]; mv != nil {
				rec.Obj, rec.Ptr = mv, mv.ptr
			}
			rec.Extra = te.swStart[op.N]
			delete(te.sw, op.N)
			sw.Stop()
		}
	case "close":
		s := te.scope(op.S)
		if s == nil || s.sc == nil {
			return
		}
		rec.Ptr, rec.Obj = s.ptr, s
		if c, ok := s.sc.(io.Closer); ok {
			if err := c.Close(); err != nil {
				rec.Err = err.Error()
			}
		}
	case "closeroot":
		s := te.scope(0)
		rec.Ptr, rec.Obj = s.ptr, s
		if env.RootCloser != nil {
			env.setRootCloseInvoked()
			if err := env.RootCloser.Close(); err != nil {
				rec.Err = err.Error()
			}
			env.setRootClosed()
			// goroutines of this root: the ones its construction started and
			// whatever those started. (A goroutine that belongs to another root -
			// the shared NoopScope that a task closes, say - is not this root's.)
			rec.Extra = env.watchLeft(env.Sim.LiveLibDescendants(env.rootLib))
		}
	case "sleep":
		simrt.Sleep(time.Duration(op.I))
	case "yield":
		simrt.Yield()
	case "quiesce":
		simrt.Quiesce()
	case "tick":
		te.tick()
	case "settle":
		// "once activity has stopped and one more report has run": a complete
		// periodic pass (if the root reports periodically) and / or the root's Close
		complete := te.tick()
		if op.N == 1 || env.Prog.Cfg.IntervalNs <= 0 {
			if env.RootCloser != nil {
				if err := env.RootCloser.Close(); err != nil {
					rec.Err = err.Error()
				}
				env.setRootClosed()
				complete = true
			}
		}
		rec.Extra = complete
	case "idlepass":
		rec.Extra = te.tick()
	case "mark":
		// a named position in the history
	case "mutmap":
		if m, ok := te.maps[op.Ref]; ok {
			for k := range m {
				m[k] = m[k] + "!mut"
			}
			m["added-later"] = "x"
		}
	case "snap":
		if sv := te.scope(op.S); sv != nil {
			if ts, ok := sv.sc.(tally.TestScope); ok {
				sc := takeSnapshot(ts.Snapshot(), op.N == 1)
				rec.Extra = sc
				te.env.snaps[op.Ref] = sc
			}
		}
	case "resnap":
		// copy an earlier snapshot object again (has later recording changed it?)
		if sc := te.env.snaps[op.Ref]; sc != nil && sc.raw != nil {
			rec.Extra = takeSnapshot(sc.raw, false)
		}
	case "mutsnap":
		if sc := te.env.snaps[op.Ref]; sc != nil && sc.raw != nil {
			mutateSnapshot(sc.raw)
		}
	case "newcall":
		s := te.scope(op.S)
		if s == nil || s.sc == nil {
			return
		}
		te.calls[op.N] = instrument.NewCall(s.sc, op.Name)
		rec.Obj = s
	case "exec":
		if c, ok := te.calls[op.N]; ok {
			te.execCall(c, op, rec)
		}
	default:
		if !te.execExt(op, rec) {
			panic("harness: unknown op " + op.K)
		}
	}
}

// tick waits until one complete periodic report pass that started after the
// call has finished. Passes are recognised at the reporter seam only: a pass
// ends with a Flush, and the passes of one reporting goroutine are sequential,
// so once two Flush calls of the same task have begun and ended after the call,
// the pass ending in the second one started after the call. It returns false
// if that could not be observed (then the run is no witness for clauses that
// need "one more report").
func (te *taskEnv) tick() bool {
	env := te.env
	iv := env.Prog.Cfg.IntervalNs
	if iv <= 0 || env.isRootClosed() {
		return true
	}
	from := env.Log.Seq()
	for i := 0; i < 12; i++ {
		simrt.Sleep(time.Duration(iv))
		simrt.Quiesce()
		if env.Log.twoFlushesSince(from) {
			return true
		}
	}
	return false
}

func specOfShared(env *Env, op *Op) *BucketSpec {
	if op.N > 0 && op.N <= len(env.sharedSpecsOrig) {
		return env.sharedSpecsOrig[op.N-1]
	}
	if op.B == nil {
		return &BucketSpec{Nil: true}
	}
	return specOf(op.B.Buckets())
}
