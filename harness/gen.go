package harness

import (
	"math"

	"verifsim/simrt"
)

// Gen generates programs from a seed. Program generation does not use the
// run's decision tape: the generated program is stored verbatim in replay files.
type Gen struct {
	R *simrt.Rand
}

func (g *Gen) Intn(n int) int    { return g.R.Intn(n) }
func (g *Gen) Bool(pct int) bool { return g.R.Intn(100) < pct }
func (g *Gen) Range(lo, hi int) int { // inclusive
	if hi <= lo {
		return lo
	}
	return lo + g.R.Intn(hi-lo+1)
}

func pick[T any](g *Gen, xs ...T) T { return xs[g.Intn(len(xs))] }

// weighted picks an index according to weights.
func (g *Gen) weighted(ws ...int) int {
	t := 0
	for _, w := range ws {
		t += w
	}
	x := g.Intn(t)
	for i, w := range ws {
		if x < w {
			return i
		}
		x -= w
	}
	return len(ws) - 1
}

// schedule fills the scheduling part of a configuration (swarm style).
func (g *Gen) schedule(c *Config, interval int64) {
	c.Strategy = g.weighted(25, 25, 20, 25, 5) // random sticky pct contention rtc
	c.PStay = pick(g, 50, 70, 85, 95)
	c.PContention = pick(g, 30, 60, 90)
	c.PCTDepth = g.Range(1, 4)
	c.PCTHorizon = pick(g, 50, 150, 400)
	c.PAdvance = pick(g, 0, 0, 2, 10, 40)
	c.PStall = pick(g, 0, 0, 0, 3, 10, 30)
	if interval > 0 {
		c.Quanta = []int64{interval / 4, interval / 2, interval, 2 * interval}
	} else {
		c.Quanta = []int64{1e6, 1e8, 1e9}
	}
	c.MaxSteps = 20000
}

var intMenu = []int64{1, 1, 1, 2, 3, 5, 7, 10, 100, 0, -1, -2, -7, math.MaxInt64, math.MinInt64, math.MaxInt64 - 1, 1 << 40}
var posMenu = []int64{1, 1, 1, 2, 3, 5, 7, 10, 100, 0, 1 << 40}

var floatMenu = []float64{0, 1, -1, 0.5, 2.5, 100, -100, 1e300, -1e300, math.MaxFloat64, -math.MaxFloat64, math.SmallestNonzeroFloat64, math.Inf(1), math.Inf(-1), math.Copysign(0, -1), 5e-324 * 3}

// uniqueFloat returns a float64 bit pattern that is unique for n and, for some
// n, one of the interesting classes (NaN payloads, infinities, -0, subnormals).
func uniqueFloatBits(g *Gen, n int) uint64 {
	switch g.Intn(12) {
	case 0: // NaN with payload
		return 0x7ff8000000000000 | uint64(n+1)
	case 1: // signalling-style NaN payload
		return 0x7ff0000000000000 | uint64(n+1)
	case 2: // subnormal
		return uint64(n + 1)
	case 3: // negative
		return f64bits(-(float64(n) + 0.25))
	case 4:
		return f64bits(float64(n)*1e300 + 1e299)
	}
	return f64bits(float64(n) + 1000.5)
}
