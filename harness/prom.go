package harness

import (
	"fmt"
	"math"
	"sort"
	"strings"
	"time"

	prom "github.com/prometheus/client_golang/prometheus"
	dto "github.com/prometheus/client_model/go"
	tally "github.com/uber-go/tally/v4"
	promreporter "github.com/uber-go/tally/v4/prometheus"
)

type promState struct {
	reg      *prom.Registry
	rep      promreporter.Reporter
	cbErrors []string
	cbCalls  int
}

var promHandlerSeq int

type promCBPanic struct{ msg string }

func (p promCBPanic) String() string { return "harness callback panic: " + p.msg }

func (env *Env) setupProm() error {
	cfg := &env.Prog.Cfg
	pc := cfg.Prom
	if pc == nil {
		pc = &PromCfg{}
	}
	st := &promState{reg: prom.NewRegistry()}
	cb := func(err error) {
		st.cbCalls++
		st.cbErrors = append(st.cbErrors, err.Error())
		if cfg.Faults.PanicCB {
			panic(promCBPanic{err.Error()})
		}
	}
	switch pc.OnError {
	case "cfg-none", "cfg-default", "cfg-log":
		// the configuration path registers an HTTP handler on the process-wide
		// default mux: give every run of this process its own path
		promHandlerSeq++
		c := promreporter.Configuration{HandlerPath: fmt.Sprintf("/metrics-run-%d", promHandlerSeq)}
		switch pc.OnError {
		case "cfg-none":
			c.OnError = "none"
		case "cfg-log":
			c.OnError = "log"
		}
		if pc.TimerHistogram {
			c.TimerType = "histogram"
		}
		r, err := c.NewReporter(promreporter.ConfigurationOptions{Registry: st.reg})
		if err != nil {
			return err
		}
		st.rep = r
	case "default":
		opts := promreporter.Options{Registerer: st.reg}
		if pc.TimerHistogram {
			opts.DefaultTimerType = promreporter.HistogramTimerType
		}
		st.rep = promreporter.NewReporter(opts)
	default:
		opts := promreporter.Options{Registerer: st.reg, OnRegisterError: cb}
		if pc.TimerHistogram {
			opts.DefaultTimerType = promreporter.HistogramTimerType
		}
		st.rep = promreporter.NewReporter(opts)
	}
	env.ext = st
	sopts := tally.ScopeOptions{
		Tags:                   copyTags(cfg.RootTags),
		Prefix:                 cfg.Prefix,
		CachedReporter:         st.rep,
		Separator:              promreporter.DefaultSeparator,
		SanitizeOptions:        &promreporter.DefaultSanitizerOpts,
		OmitCardinalityMetrics: cfg.OmitCard,
	}
	cfg.Separator = promreporter.DefaultSeparator
	cfg.Sanitize = &SanOpts{
		Name:  ValidChars{Ranges: [][2]rune{{'a', 'z'}, {'A', 'Z'}, {'0', '9'}}, Chars: []rune{'_'}},
		Key:   ValidChars{Ranges: [][2]rune{{'a', 'z'}, {'A', 'Z'}, {'0', '9'}}, Chars: []rune{'_'}},
		Value: ValidChars{Ranges: [][2]rune{{'a', 'z'}, {'A', 'Z'}, {'0', '9'}}, Chars: []rune{'_'}},
		Repl:  '_',
	}
	env.Model = NewModel(cfg)
	env.Root, env.RootCloser = tally.NewRootScope(sopts, time.Duration(cfg.IntervalNs))
	env.main.scopes[0] = &scopeVar{sc: env.Root, ptr: objPtr(env.Root), model: env.Model.Root()}
	return nil
}

// promSeries is one series of a gathered family.
type promSeries struct {
	labels  map[string]string
	value   float64
	count   uint64
	sum     float64
	buckets map[float64]uint64 // cumulative
}

type promFamily struct {
	name   string
	typ    string
	series []promSeries
}

type gatherResult struct {
	fams map[string]*promFamily
	err  string
}

func (te *taskEnv) execProm(op *Op, rec *OpRec) bool {
	if op.K == "promreg" {
		// the application registers a family itself, ahead of its first use, with
		// the label names in an order of its own (Str = "kind:key1,key2,...")
		st, _ := te.env.ext.(*promState)
		if st == nil {
			return true
		}
		kind, keys, _ := strings.Cut(op.Str, ":")
		var err error
		switch kind {
		case "counter":
			_, err = st.rep.RegisterCounter(op.Name, strings.Split(keys, ","), "registered ahead of use")
		case "gauge":
			_, err = st.rep.RegisterGauge(op.Name, strings.Split(keys, ","), "registered ahead of use")
		}
		if err != nil {
			rec.Err = err.Error()
		}
		return true
	}
	if op.K != "gather" {
		return false
	}
	st, _ := te.env.ext.(*promState)
	if st == nil {
		return true
	}
	res := &gatherResult{fams: map[string]*promFamily{}}
	mfs, err := st.reg.Gather()
	if err != nil {
		res.err = err.Error()
	}
	for _, mf := range mfs {
		f := &promFamily{name: mf.GetName(), typ: mf.GetType().String()}
		for _, m := range mf.Metric {
			s := promSeries{labels: map[string]string{}}
			for _, l := range m.Label {
				s.labels[l.GetName()] = l.GetValue()
			}
			switch mf.GetType() {
			case dto.MetricType_COUNTER:
				s.value = m.GetCounter().GetValue()
			case dto.MetricType_GAUGE:
				s.value = m.GetGauge().GetValue()
			case dto.MetricType_HISTOGRAM:
				h := m.GetHistogram()
				s.count, s.sum = h.GetSampleCount(), h.GetSampleSum()
				s.buckets = map[float64]uint64{}
				for _, b := range h.Bucket {
					s.buckets[b.GetUpperBound()] = b.GetCumulativeCount()
				}
			case dto.MetricType_SUMMARY:
				s.count, s.sum = m.GetSummary().GetSampleCount(), m.GetSummary().GetSampleSum()
			}
			f.series = append(f.series, s)
		}
		res.fams[f.name] = f
	}
	rec.Extra = res
	return true
}

func init() {
	register(&Property{ID: "C17", Gen: genC17, Check: checkC17, Interest: func(env *Env) bool {
		return env.Probes.Custom["series_checked"] > 0 || env.Probes.Custom["conflicts"] > 0
	}})
}

var promNames = []string{"requests", "latency", "queue_depth", "a", "b_total", "x1"}

func genC17(g *Gen, tier string) *Program {
	p := &Program{Prop: "C17"}
	c := &p.Cfg
	c.Stack = "prom"
	c.CPUs = pick(g, 1, 2, 4)
	c.IntervalNs = pick(g, int64(0), int64(1e9))
	c.OmitCard = true
	g.schedule(c, c.IntervalNs)
	conflict := g.Bool(45)
	c.Prom = &PromCfg{TimerHistogram: g.Bool(40)}
	if conflict {
		c.Prom.OnError = pick(g, "", "", "cfg-none", "cfg-default", "default", "cfg-log")
		c.Faults.PanicCB = c.Prom.OnError == "" && g.Bool(50)
		c.Flags = map[string]int{"conflict": 1}
	}
	if g.Bool(30) {
		c.Prefix = "svc"
	}
	if g.Bool(30) {
		c.RootTags = map[string]string{"env": "prod"}
	}
	maxOps := 9
	if tier == "thorough" {
		maxOps = 16
	}
	uniq := 0
	nTasks := g.Range(1, 3)
	for t := 0; t < nTasks; t++ {
		var ops []Op
		nextS, nextM := 1, 1
		scopes := []int{0}
		// Prometheus wants one set of label names per metric name: outside the
		// conflict profile the name carries the scope's tag keys
		keysOf := map[int]string{0: ""}
		for k := range c.RootTags {
			keysOf[0] += "_" + k
		}
		type mh struct {
			m    int
			kind string
			spec *BucketSpec
		}
		var ms []mh
		n := g.Range(3, maxOps)
		for guard := 0; len(ops) < n && guard < 100; guard++ {
			switch g.weighted(2, 4, 8, 1) {
			case 0:
				par := scopes[g.Intn(len(scopes))]
				if g.Bool(50) {
					ops = append(ops, Op{K: "sub", S: par, D: nextS, Name: pick(g, "api", "db")})
					keysOf[nextS] = keysOf[par]
				} else {
					k := pick(g, "zone", "host_id")
					ops = append(ops, Op{K: "tag", S: par, D: nextS, Tags: map[string]string{k: pick(g, "a", "b", "c1")}})
					keysOf[nextS] = keysOf[par]
					if !strings.Contains(keysOf[par]+"_", "_"+k+"_") {
						keysOf[nextS] += "_" + k
					}
				}
				scopes = append(scopes, nextS)
				nextS++
			case 1:
				if !conflict && t == 0 && g.Bool(3) {
					// a family the application registered itself ahead of use, with its
					// label names in an order that is not the alphabetical one
					if !strings.Contains(keysOf[0], "_zone") && !strings.Contains(keysOf[0], "_host_id") {
						kind := pick(g, "counter", "gauge")
						sa, sb := nextS, nextS+1
						nextS += 2
						keys := []string{"zone", "host_id"}
						for k := range c.RootTags {
							keys = append(keys, k)
						}
						sorted := append([]string(nil), keys...)
						sort.Strings(sorted)
						nm := kind[:1] + "_prereg_k" + strings.Join(sorted, "")
						full := nm
						if c.Prefix != "" {
							full = c.Prefix + promreporter.DefaultSeparator + nm
						}
						p.Prelude = append(p.Prelude, Op{K: "promreg", Name: full, Str: kind + ":" + strings.Join(keys, ",")})
						ops = append(ops,
							Op{K: "tag", S: 0, D: sa, Tags: map[string]string{"zone": "a"}},
							Op{K: "tag", S: sa, D: sb, Tags: map[string]string{"host_id": "b"}},
							Op{K: kind, S: sb, M: nextM, Name: nm})
						if kind == "counter" {
							ops = append(ops, Op{K: "inc", M: nextM, I: 5})
						} else {
							ops = append(ops, Op{K: "upd", M: nextM, F: f64bits(7.5)})
						}
						nextM++
						continue
					}
				}
				if !conflict && t == 0 && g.Bool(3) {
					// two series of one histogram family (same name, same tag keys,
					// different tag values) requested with different bucket sets
					k := pick(g, "zone", "host_id")
					if !strings.Contains(keysOf[0]+"_", "_"+k+"_") {
						sa, sb := nextS, nextS+1
						nextS += 2
						nm := "h_twosets_k" + strings.TrimPrefix(keysOf[0]+"_"+k, "_")
						b1 := &BucketSpec{Bits: []uint64{f64bits(1), f64bits(2), f64bits(3)}}
						b2 := &BucketSpec{Bits: []uint64{f64bits(10), f64bits(20), f64bits(30)}}
						ops = append(ops,
							Op{K: "tag", S: 0, D: sa, Tags: map[string]string{k: "a"}},
							Op{K: "tag", S: 0, D: sb, Tags: map[string]string{k: "b"}},
							Op{K: "hist", S: sa, M: nextM, Name: nm, B: b1},
							Op{K: "hist", S: sb, M: nextM + 1, Name: nm, B: b2},
							Op{K: "recv", M: nextM, F: f64bits(2)},
							Op{K: "recv", M: nextM + 1, F: f64bits(8)})
						nextM += 2
						continue
					}
				}
				kind := []string{"counter", "gauge", "timer", "hist"}[g.Intn(4)]
				name := promNames[g.Intn(len(promNames))]
				if !conflict {
					name = kind[:1] + "_" + name // one kind per name
				}
				sv := scopes[g.Intn(len(scopes))]
				if !conflict {
					ks := strings.Split(strings.TrimPrefix(keysOf[sv], "_"), "_")
					sort.Strings(ks)
					name += "_k" + strings.Join(ks, "")
				}
				if !conflict && g.Bool(12) {
					// the vocabularies of names and of label names overlap: a counter
					// called like one tag key, on a scope whose (only) own tag is the other
					// one - always that pairing, so the name still has one kind and one set
					// of label names
					nm := pick(g, "zone", "host_id")
					other := map[string]string{"zone": "host_id", "host_id": "zone"}[nm]
					for _, cand := range scopes {
						if keysOf[cand] == keysOf[0]+"_"+other {
							kind, name, sv = "counter", nm, cand
							break
						}
					}
				}
				op := Op{K: kind, S: sv, M: nextM, Name: name}
				var spec *BucketSpec
				if kind == "hist" {
					if g.Bool(50) {
						// (the last pairs have equal sums of bit patterns: sets that an
						// identity built on such sums cannot tell apart)
						vs := [][]float64{{0, 1, 2.5, 10}, {0, 1, 2.5, 10}, {1, 2, 3, 4}, {-5, 0.5, 7, 100}, {0.125, 0.25, 0.5, 1}, {1, 8}, {2, 4}, {1, 8}, {2, 4}}[g.Intn(9)]
						spec = &BucketSpec{}
						for _, v := range vs {
							spec.Bits = append(spec.Bits, f64bits(v))
						}
					} else {
						spec = &BucketSpec{Dur: true, Durs: []int64{1e6, 5e8, 1e9, 2e9}}
						if g.Bool(25) {
							spec = &BucketSpec{Dur: true, Durs: pick(g, []int64{10e6, 20e6, 30e6}, []int64{15e6, 20e6, 25e6})} // equal sums
						} else if g.Bool(60) {
							// strictly increasing bounds at ms or ns granularity, mostly above one
							// second (where seconds-as-float64 conversions start to round)
							spec = &BucketSpec{Dur: true}
							d := int64(g.Range(1, 900)) * 1e6
							for i := g.Range(2, 4); i > 0; i-- {
								spec.Durs = append(spec.Durs, d)
								step := int64(g.Range(1, 4000)) * 1e6
								if g.Bool(40) {
									step += int64(g.Intn(1000000))
								}
								d += step
							}
						}
					}
					emptySpec := g.Bool(8)
					if emptySpec {
						// the caller passes an empty (not nil) specification: that means the
						// scope's defaults, tally's default duration buckets on this stack
						// (op.B is what the histogram is expected to have)
						spec = &BucketSpec{Dur: true, Durs: append([]int64(nil), tallyDefaultDurs...)}
						op.Str = "empty"
					}
					if g.Bool(35) && !emptySpec {
						op.N = -1 // the caller builds every bucket set in one scratch slice
					}
					if !conflict && !emptySpec && g.Bool(8) {
						// ... except here: the name carries no trace of the bucket set, so
						// that series of one family (same name and tag keys) can be
						// requested with different sets
						if i := strings.LastIndex(op.Name, "_k"); i >= 0 {
							op.Name = "respec" + op.Name[i:]
						}
					} else if !conflict {
						// a histogram name always goes with one bucket set
						if spec.Dur {
							op.Name += fmt.Sprintf("_d%d", specHash(spec))
						} else {
							h := uint64(0)
							for _, b := range spec.Bits {
								h = h*1099511628211 + b
							}
							op.Name += fmt.Sprintf("_v%d", h%99991)
						}
					}
					op.B = spec
				}
				ops = append(ops, op)
				ms = append(ms, mh{nextM, kind, spec})
				nextM++
			case 2:
				if len(ms) == 0 {
					continue
				}
				m := ms[g.Intn(len(ms))]
				uniq++
				switch m.kind {
				case "counter":
					ops = append(ops, Op{K: "inc", M: m.m, I: int64(g.Range(0, 7))})
				case "gauge":
					ops = append(ops, Op{K: "upd", M: m.m, F: f64bits(float64(uniq)*0.5 - 3)})
				case "timer":
					ops = append(ops, Op{K: "rec", M: m.m, I: int64(uniq) * 1e6})
				case "hist":
					if m.spec.Dur {
						v := pick(g, int64(0), int64(1e6), int64(1e6+1), int64(5e8), int64(1e9), int64(3e9))
						if g.Bool(70) {
							v = m.spec.Durs[g.Intn(len(m.spec.Durs))] + pick(g, int64(0), int64(0), int64(1), int64(-1))
						}
						ops = append(ops, Op{K: "recd", M: m.m, I: v})
					} else {
						v := pick(g, -1.0, 0, 0.5, 1, 2.5, 2.6, 10, 11)
						if g.Bool(50) {
							v = f64from(m.spec.Bits[g.Intn(len(m.spec.Bits))]) + pick(g, 0.0, 0, 0.0625, -0.0625)
						}
						ops = append(ops, Op{K: "recv", M: m.m, F: f64bits(v)})
					}
				}
			case 3:
				if c.IntervalNs > 0 {
					ops = append(ops, Op{K: "sleep", I: c.IntervalNs})
				} else {
					ops = append(ops, Op{K: "yield"})
				}
			}
		}
		p.Tasks = append(p.Tasks, ops)
	}
	p.Epilogue = append(p.Epilogue, Op{K: "settle", N: g.Intn(2)}, Op{K: "gather"})
	return p
}

func labelsKey(m map[string]string) string {
	keys := make([]string, 0, len(m))
	for k := range m {
		keys = append(keys, k)
	}
	sort.Strings(keys)
	s := ""
	for _, k := range keys {
		s += k + "=" + m[k] + ","
	}
	return s
}

func checkC17(env *Env) []Violation {
	ops := env.OpsBeforeTeardown()
	var out []Violation
	st, _ := env.ext.(*promState)
	if st == nil {
		return out
	}
	// whether the history reuses a name is derived from the history itself, never
	// taken on trust from the generator's flag (a shrunk or hand-written program
	// may reuse a name without carrying the flag)
	conflict := env.Prog.Cfg.Flags["conflict"] == 1 || promNameReuse(ops)
	mode := ""
	if env.Prog.Cfg.Prom != nil {
		mode = env.Prog.Cfg.Prom.OnError
	}
	callbackMayPanic := env.Prog.Cfg.Faults.PanicCB || mode == "default" || mode == "cfg-default"
	// panics: never a nil dereference or other runtime error; a panic raised by
	// the configured callback is the callback's business
	for _, r := range ops {
		if r.Panic == "" {
			continue
		}
		stk, _ := r.Extra.(string)
		if len(stk) > 1200 {
			stk = stk[:1200]
		}
		_, sentinel := r.PanicVal.(promCBPanic)
		switch {
		case r.PanicRT:
			out = append(out, vf("runtime-panic", "%s panicked with a runtime error: %s\n%s", r.Op.String(), r.Panic, stk))
		case sentinel:
			env.Probes.inc("F8_callback_panics")
		case callbackMayPanic:
			if _, isErr := r.PanicVal.(error); isErr {
				env.Probes.inc("F8_callback_panics")
			} else {
				out = append(out, vf("panic", "%s panicked with %v (not raised by the configured callback)\n%s", r.Op.String(), r.Panic, stk))
			}
		default:
			out = append(out, vf("panic", "%s panicked although the configured error callback returns: %s\n%s", r.Op.String(), r.Panic, stk))
		}
	}
	if st.cbCalls > 0 {
		env.Probes.inc("conflicts")
	}
	if conflict {
		return out
	}
	// value agreement (histories that do not reuse a name for two kinds)
	if st.cbCalls > 0 {
		out = append(out, vf("unexpected-conflict", "registration rejected in a history without name reuse: %v", st.cbErrors))
		return out
	}
	var g *gatherResult
	for _, r := range ops {
		if r.Op.K == "gather" && r.Ret != 0 && r.Panic == "" {
			g, _ = r.Extra.(*gatherResult)
		}
	}
	if _, _, ok := opWindow(ops, "settle"); !ok || g == nil {
		return out
	}
	if g.err != "" {
		out = append(out, vf("gather-error", "Gather failed: %s", g.err))
		return out
	}
	ci := newCloseInfo(env, ops)
	type want = promWant
	ws := map[string]*want{}
	for _, r := range ops {
		mv, _ := r.Obj.(*metricVar)
		if mv == nil || r.Panic != "" {
			continue
		}
		k := mv.kind + "|" + idKey(mv.FullName, mv.Tags)
		w := ws[k]
		if w == nil {
			w = &want{kind: mv.kind, name: mv.FullName, tags: mv.Tags, spec: mv.spec}
			ws[k] = w
		} else if mv.kind == "hist" && w.spec != nil && mv.spec != nil && !sameBuckets(w.spec, mv.spec) {
			// one identity requested with two bucket sets: the first request to get
			// there decides (C03), and which one that was is not in the history
			w.skip = true
		}
		ob := ci.obligation(mv, r)
		switch r.Op.K {
		case "inc", "upd", "rec", "recv", "recd":
			if ob != required {
				w.skip = true
				continue
			}
		}
		switch r.Op.K {
		case "inc":
			w.sum += float64(r.Op.I)
		case "upd":
			w.gauge, w.hasG = f64from(r.Op.F), true
		case "rec":
			w.n++
		case "recv":
			if w.spec != nil && !w.spec.Dur {
				w.samples = append(w.samples, f64from(r.Op.F))
			}
		case "recd":
			if w.spec != nil && w.spec.Dur {
				w.samples = append(w.samples, float64(r.Op.I)/float64(time.Second))
			}
		}
	}
	find := func(name string, tags map[string]string) (*promFamily, *promSeries) {
		f := g.fams[name]
		if f == nil {
			return nil, nil
		}
		for i := range f.series {
			if labelsKey(f.series[i].labels) == labelsKey(tags) {
				return f, &f.series[i]
			}
		}
		return f, nil
	}
	// gauges are single-updater per identity only if one task updates them; skip multi
	upd := map[string]map[int]bool{}
	for _, r := range ops {
		if mv, _ := r.Obj.(*metricVar); mv != nil && r.Op.K == "upd" {
			k := idKey(mv.FullName, mv.Tags)
			if upd[k] == nil {
				upd[k] = map[int]bool{}
			}
			upd[k][r.Task] = true
		}
	}
	for _, w := range ws {
		if w.skip {
			continue
		}
		f, s := find(w.name, w.tags)
		touched := w.sum != 0 || w.hasG || w.n > 0 || len(w.samples) > 0
		if s == nil {
			if touched && !(w.kind == "counter" && w.sum == 0) {
				out = append(out, vf("series-missing", "%s %q %v was recorded but Gather shows no such series (family present: %v)", w.kind, w.name, w.tags, f != nil))
			}
			continue
		}
		env.Probes.inc("series_checked")
		switch w.kind {
		case "counter":
			if s.value != w.sum {
				out = append(out, vf("counter-value", "counter %q %v: Gather shows %v, increments sum to %v", w.name, w.tags, s.value, w.sum))
			}
		case "gauge":
			if w.hasG && len(upd[idKey(w.name, w.tags)]) == 1 && s.value != w.gauge {
				out = append(out, vf("gauge-value", "gauge %q %v: Gather shows %v, last update %v", w.name, w.tags, s.value, w.gauge))
			}
		case "timer":
			if s.count != w.n {
				out = append(out, vf("timer-count", "timer %q %v: Gather shows %d observations, %d values recorded", w.name, w.tags, s.count, w.n))
			}
		case "hist":
			if s.count != uint64(len(w.samples)) {
				out = append(out, vf("histogram-count", "histogram %q %v: Gather shows %d samples, %d recorded", w.name, w.tags, s.count, len(w.samples)))
				continue
			}
			// "at each bound": the exposed bounds are the histogram's own
			if w.spec != nil {
				var want []float64
				if w.spec.Dur {
					for _, d := range w.spec.Durs {
						want = append(want, float64(d)/float64(time.Second))
					}
				} else {
					for _, b := range w.spec.Bits {
						want = append(want, f64from(b))
					}
				}
				missing := ""
				for _, x := range want {
					found := false
					for ub := range s.buckets {
						if ub == x || math.Abs(ub-x) <= 1e-12*math.Abs(x) {
							found = true
						}
					}
					if !found {
						missing = fmt.Sprint(x)
						break
					}
				}
				finite := 0
				for ub := range s.buckets {
					if !math.IsInf(ub, 1) {
						finite++
					}
				}
				if missing != "" || finite != len(want) {
					var have []float64
					for ub := range s.buckets {
						have = append(have, ub)
					}
					sort.Float64s(have)
					if other := otherSpecOfFamily(ws, w); other != "" {
						out = append(out, vf("histogram-second-spec", "histogram %q %v was created with the bounds %v, but an earlier series of the same family (same name and tag keys, tags %s) was created with another set and Gather shows this series with that one: %v", w.name, w.tags, want, other, have))
						continue
					}
					out = append(out, vf("histogram-bounds", "histogram %q %v: Gather shows the bounds %v, it was created with %v", w.name, w.tags, have, want))
					continue
				}
			}
			for ub, cum := range s.buckets {
				if math.IsInf(ub, 1) {
					continue
				}
				var n uint64
				for _, x := range w.samples {
					if x <= ub {
						n++
					}
				}
				if cum != n {
					out = append(out, vf("histogram-bucket", "histogram %q %v: cumulative count at bound %v is %d, %d recorded samples are <= it (samples %v)", w.name, w.tags, ub, cum, n, w.samples))
				}
			}
		}
	}
	_ = fmt.Sprint
	return out
}

// promWant is what the history says about one metric identity.
type promWant struct {
	kind    string
	name    string
	tags    map[string]string
	sum     float64
	gauge   float64
	hasG    bool
	n       uint64
	samples []float64
	spec    *BucketSpec
	skip    bool
}

func sameBuckets(a, b *BucketSpec) bool {
	if a.Dur != b.Dur || len(a.Durs) != len(b.Durs) || len(a.Bits) != len(b.Bits) {
		return false
	}
	x, y := append([]int64(nil), a.Durs...), append([]int64(nil), b.Durs...)
	sort.Slice(x, func(i, j int) bool { return x[i] < x[j] })
	sort.Slice(y, func(i, j int) bool { return y[i] < y[j] })
	for i := range x {
		if x[i] != y[i] {
			return false
		}
	}
	u, v := append([]uint64(nil), a.Bits...), append([]uint64(nil), b.Bits...)
	sort.Slice(u, func(i, j int) bool { return f64from(u[i]) < f64from(u[j]) })
	sort.Slice(v, func(i, j int) bool { return f64from(v[i]) < f64from(v[j]) })
	for i := range u {
		if f64from(u[i]) != f64from(v[i]) {
			return false
		}
	}
	return true
}

// otherSpecOfFamily looks for a histogram of w's family (same name, same tag
// keys, other tag values) that was created with another bucket set; it returns
// that series' tags, or "".
func otherSpecOfFamily(ws map[string]*promWant, w *promWant) string {
	keys := func(m map[string]string) string {
		var ks []string
		for k := range m {
			ks = append(ks, k)
		}
		sort.Strings(ks)
		return strings.Join(ks, ",")
	}
	for _, o := range ws {
		if o == w || o.kind != "hist" || o.name != w.name || o.spec == nil || w.spec == nil || keys(o.tags) != keys(w.tags) {
			continue
		}
		if !sameBuckets(o.spec, w.spec) {
			return fmt.Sprint(o.tags)
		}
	}
	return ""
}

// promNameReuse reports whether one fully-qualified name is requested with more
// than one (kind, label-name set, bucket set): Prometheus rightly rejects those.
func promNameReuse(ops []*OpRec) bool {
	sigs := map[string]string{}
	for _, r := range ops {
		mv, _ := r.Obj.(*metricVar)
		if mv == nil {
			continue
		}
		keys := make([]string, 0, len(mv.Tags))
		for k := range mv.Tags {
			keys = append(keys, k)
		}
		sort.Strings(keys)
		sig := mv.kind + "|" + strings.Join(keys, ",")
		// (two bucket sets under one name are not "a name reused for another kind
		// of metric": value agreement is claimed for them - see histogram-second-spec)
		if old, ok := sigs[mv.FullName]; ok && old != sig {
			return true
		}
		sigs[mv.FullName] = sig
	}
	return false
}

func specHash(b *BucketSpec) uint32 {
	h := uint32(2166136261)
	for _, d := range b.Durs {
		for i := 0; i < 8; i++ {
			h = (h ^ uint32(byte(d>>(8*i)))) * 16777619
		}
	}
	return h % 100000
}
