// Package simtime has the API of package time. Everything is package time's own
// (the fake clock of testing/synctest is what makes it simulated) except for the
// two entry points through which code under test gets to run, or to wait,
// outside the scheduler's sight:
//
//   - Sleep parks again after waking (a scheduling point, like a channel wake);
//   - AfterFunc runs its callback as a task of the simulation.
//
// time_gen.go re-exports the rest and is generated from package time's export
// data (types as aliases, constants as constants, functions and variables as
// variables), so that any identifier an edited tree may use is there.
package simtime

import (
	"time"

	"verifsim/simrt"
)

// Sleep pauses the calling task on the simulated clock.
func Sleep(d Duration) { simrt.Sleep(d) }

// AfterFunc is time.AfterFunc; during a run the callback is a library task.
func AfterFunc(d Duration, f func()) *Timer {
	if simrt.Active() == nil {
		return time.AfterFunc(d, f)
	}
	return time.AfterFunc(d, func() { simrt.RunCallback("time.AfterFunc", f) })
}
