package harness

import (
	"bytes"
	"fmt"
	"strings"

	"github.com/uber-go/tally/v4/m3/thriftudp"
	"github.com/uber-go/tally/v4/thirdparty/github.com/apache/thrift/lib/go/thrift"
)

type transportState struct {
	single *thriftudp.TUDPTransport
	multi  *thriftudp.TMultiUDPTransport
	t      thrift.TTransport
	dests  int
}

func (env *Env) setupTransport() error {
	env.installNetFaults()
	n := 1
	if env.Prog.Cfg.M3 != nil && env.Prog.Cfg.M3.Dests > 1 {
		n = env.Prog.Cfg.M3.Dests
	}
	st := &transportState{dests: n}
	if n == 1 {
		t, err := thriftudp.NewTUDPClientTransport("127.0.0.1:9052", "")
		if err != nil {
			return err
		}
		st.single, st.t = t, t
	} else {
		var hosts []string
		for i := 0; i < n; i++ {
			hosts = append(hosts, fmt.Sprintf("127.0.0.1:%d", 9052+i))
		}
		t, err := thriftudp.NewTMultiUDPClientTransport(hosts, "")
		if err != nil {
			return err
		}
		st.multi, st.t = t, t
	}
	env.ext = st
	return nil
}

func (env *Env) teardownTransport() {
	if st, ok := env.ext.(*transportState); ok && st.t != nil {
		st.t.Close()
	}
}

type tResult struct {
	n   int
	err string
}

func (te *taskEnv) execTransport(op *Op, rec *OpRec) bool {
	st, _ := te.env.ext.(*transportState)
	switch op.K {
	case "tw", "twb", "tws", "tflush", "tclose", "tabandon", "topen":
	default:
		return false
	}
	if st == nil {
		return true
	}
	res := &tResult{}
	var err error
	switch op.K {
	case "tw":
		res.n, err = st.t.Write(payload(op))
	case "tws":
		if rt, ok := st.t.(thrift.TRichTransport); ok {
			res.n, err = rt.WriteString(string(payload(op)))
		} else {
			res.n, err = st.t.Write(payload(op))
		}
	case "twb":
		if rt, ok := st.t.(thrift.TRichTransport); ok {
			err = rt.WriteByte(byte(op.I))
			if err == nil {
				res.n = 1
			}
		} else {
			res.n, err = st.t.Write([]byte{byte(op.I)})
		}
	case "tflush":
		err = st.t.Flush()
	case "tclose":
		err = st.t.Close()
	case "topen":
		if st.t.IsOpen() {
			res.n = 1
		}
	case "tabandon":
		// the writer gives up on the current message (as the generated client does
		// after a write error): nothing is called on the transport
	}
	if err != nil {
		res.err = err.Error()
		if res.err == "" {
			res.err = "error"
		}
	}
	rec.Extra = res
	return true
}

// payload builds the bytes of a write: N bytes of a pattern seeded by I, or Data.
func payload(op *Op) []byte {
	if op.Data != nil {
		return op.Data
	}
	b := make([]byte, op.N)
	for i := range b {
		b[i] = byte(int64(i)*7 + op.I)
	}
	return b
}

func init() {
	register(&Property{
		ID:    "C15",
		Gen:   genC15,
		Check: checkC15,
		Interest: func(env *Env) bool {
			return env.Probes.Custom["messages_after_fault"] > 0 && env.Probes.Custom["faults_in_sequence"] > 0
		},
	})
}

// genC15Outage: the clause "the M3 reporter keeps emitting later batches". The
// real reporter on the real transport; a run of consecutive datagrams fails (an
// outage) while a producer reports several packets' worth of bucket samples;
// the network works again afterwards and more is reported.
func genC15Outage(g *Gen, tier string) *Program {
	p := &Program{Prop: "C15"}
	genM3(g, p, m3GenOpts{nameLen: []int{3, 8}, maxTags: 3, tasks: [2]int{1, 2}, reports: [2]int{2, 6}})
	c := &p.Cfg
	c.M3.Dests = 1
	c.M3.MaxQueue = pick(g, 4, 100, 4096)
	c.M3.MaxPacket = pick(g, int32(8192), int32(16384), int32(32768), int32(32768), int32(60000))
	first := g.Range(1, 3)
	for k := g.Range(1, 4); k > 0; k-- {
		c.Faults.SendFail = append(c.Faults.SendFail, first)
		first++
	}
	p.Prelude = append(p.Prelude, Op{K: "m3ah", M: 1000, Name: "outage_histogram", Tags: map[string]string{"a": "1"}, B: &BucketSpec{Bits: []uint64{f64bits(1), f64bits(1e15)}}},
		Op{K: "m3bucket", S: 1000, M: 1001, F: f64bits(1e15)},
		Op{K: "m3ac", M: 1002, Name: "after_outage"})
	var ops []Op
	packets := g.Range(len(c.Faults.SendFail)+2, len(c.Faults.SendFail)+4)
	n := packets * int(c.M3.MaxPacket) / 70
	for i := 0; i < n; i++ {
		ops = append(ops, Op{K: "m3samples", M: 1001, I: int64(7000000 + i)})
	}
	ops = append(ops, Op{K: "m3flush"}, Op{K: "sleep", I: 2e9})
	for i := 0; i < 3; i++ {
		ops = append(ops, Op{K: "m3count", M: 1002, I: int64(880000 + i)}, Op{K: "m3flush"}, Op{K: "sleep", I: 1e9})
	}
	p.Tasks = append(p.Tasks, ops)
	c.MaxSteps = 400000
	return p
}

func genC15(g *Gen, tier string) *Program {
	if g.Bool(map[string]int{"quick": 2, "thorough": 4}[tier]) {
		return genC15Outage(g, tier)
	}
	p := &Program{Prop: "C15"}
	c := &p.Cfg
	c.Stack = "transport"
	c.CPUs = 1
	g.schedule(c, 0)
	c.M3 = &M3Cfg{Dests: pick(g, 1, 1, 2, 3)}
	if g.Bool(40) {
		c.Faults.SendFail = []int{g.Range(1, 4)}
		if g.Bool(30) {
			c.Faults.SendFail = append(c.Faults.SendFail, g.Range(2, 6))
		}
	}
	if g.Bool(15) {
		c.Faults.CloseDest = g.Range(1, 4)
	}
	if c.M3.Dests > 1 && len(c.Faults.SendFail) > 0 && g.Bool(60) {
		c.Faults.FailDest = g.Range(1, c.M3.Dests) // one destination is flaky, the others are healthy
	}
	var ops []Op
	sizes := []int{0, 1, 5, 100, 1000, 30000, 32500, 40000, 64999, 65000, 65001, 70000}
	nMsg := g.Range(2, 6)
	if tier == "thorough" {
		nMsg = g.Range(2, 10)
	}
	seed := int64(0)
	for m := 0; m < nMsg; m++ {
		big := g.Bool(35)
		nw := g.Range(1, 4)
		for w := 0; w < nw; w++ {
			seed++
			sz := pick(g, 1, 5, 100, 1000)
			if big {
				sz = sizes[g.Intn(len(sizes))]
			}
			switch g.Intn(4) {
			case 0:
				ops = append(ops, Op{K: "twb", I: seed})
			case 1:
				ops = append(ops, Op{K: "tws", N: sz, I: seed})
			default:
				ops = append(ops, Op{K: "tw", N: sz, I: seed})
			}
		}
		if g.Bool(12) {
			ops = append(ops, Op{K: "tabandon"})
		} else {
			ops = append(ops, Op{K: "tflush"})
		}
		if g.Bool(6) {
			ops = append(ops, Op{K: "tclose"})
			if g.Bool(50) {
				ops = append(ops, Op{K: "tclose"})
			}
		}
	}
	p.Tasks = [][]Op{ops}
	return p
}

// checkC15 runs a byte-buffer model of the transport next to the recorded calls.
func checkC15(env *Env) []Violation {
	if env.Prog.Cfg.Stack == "m3direct" {
		return checkC15Outage(env)
	}
	ops := env.OpsBeforeTeardown()
	var out []Violation
	out = append(out, opPanics(ops, nil)...)
	st, _ := env.ext.(*transportState)
	if st == nil {
		return out
	}
	end := env.teardownSeq()
	nd := st.dests
	// datagrams per destination in order
	perConn := map[int][]int{}
	for i, d := range env.Net.Log {
		if d.Seq < end {
			perConn[d.Conn] = append(perConn[d.Conn], i)
		}
	}
	pos := make(map[int]int)
	var buf []byte
	closed := false
	anyFault := false
	sendFaultSeen := false
	refusedInMsg := false    // a write of the current message was refused
	abandonedPrefix := false // bytes of an abandoned message are still in the model buffer
	stale := 0
	for _, r := range ops {
		res, _ := r.Extra.(*tResult)
		if res == nil || r.Ret == 0 {
			continue
		}
		switch r.Op.K {
		case "tw", "tws", "twb":
			n := r.Op.N
			if r.Op.K == "twb" {
				n = 1
			}
			switch {
			case closed:
				if res.err == "" {
					out = append(out, vf("write-after-close", "%s on a closed transport returned no error", r.Op.K))
				}
			case len(buf)+n > 65000:
				anyFault = true
				env.Probes.inc("F6_oversize_write")
				if res.err == "" {
					out = append(out, vf("oversize-accepted", "a write that makes the message %d bytes long was accepted (limit 65000)", len(buf)+n))
					buf = append(buf, payloadOf(r.Op)...)
				} else {
					refusedInMsg = true
				}
			case abandonedPrefix && res.err != "" && stale+len(buf)+n > 65000:
				out = append(out, vf("abandoned-prefix", "after a message that was abandoned following a refused write, a %d byte write of the next message was refused because %d stale bytes of the abandoned message are still buffered", n, stale))
				return out // everything later is affected by the same stale bytes
			default:
				if nd == 1 && res.err != "" {
					out = append(out, vf("write-refused", "%s of %d bytes into a %d byte message was refused: %s", r.Op.K, n, len(buf), res.err))
				} else if res.err == "" {
					buf = append(buf, payloadOf(r.Op)...)
				}
			}
		case "tabandon":
			// "writer abandoning a message after an error (as the generated thrift
			// client does)": only a message one of whose writes was refused counts as
			// abandoned; otherwise the message simply continues.
			if !refusedInMsg {
				continue
			}
			anyFault = true
			env.Probes.inc("F6_abandoned_message")
			if len(buf) > 0 {
				abandonedPrefix = true
				stale += len(buf) // on top of what earlier abandoned messages left behind
			}
			// the model starts the next message with an empty buffer: "after any
			// failed or abandoned message the next message is transmitted complete,
			// alone and uncorrupted"
			buf = nil
			refusedInMsg = false
		case "tflush":
			if closed {
				if res.err == "" {
					out = append(out, vf("flush-after-close", "Flush on a closed transport returned no error"))
				}
				continue
			}
			if anyFault {
				env.Probes.inc("messages_after_fault")
			}
			// Every destination must receive exactly one datagram with the model
			// buffer. A destination whose own send fails loses this message. For the
			// multi transport the statement promises the full fan-out only "when no
			// destination fails", so in a Flush in which some destination's send fails
			// another destination may be left without a datagram (it has lost the
			// message too) - but whatever it is sent, now or by a later Flush, is
			// exactly the message of that Flush: "after any failed ... message the
			// next message is transmitted complete, alone and uncorrupted".
			failed := false
			idxOf := make([]int, nd)
			for c := 0; c < nd; c++ {
				idxOf[c] = -1
				if pos[c] < len(perConn[c]) {
					idx := perConn[c][pos[c]]
					if env.Net.Log[idx].Seq <= r.Ret && env.Net.Log[idx].Seq >= r.Inv {
						idxOf[c] = idx
						if env.Net.Log[idx].Err != "" {
							failed = true
						}
					}
				}
			}
			for c := 0; c < nd; c++ {
				idx := idxOf[c]
				if idx < 0 {
					if nd > 1 && failed {
						env.Probes.inc("multi_dest_skipped_in_failed_flush")
						continue
					}
					out = append(out, vf("flush-no-datagram", "Flush (message of %d bytes) produced no datagram for destination %d", len(buf), c))
					continue
				}
				pos[c]++
				d := env.Net.Log[idx]
				if d.Err != "" {
					sendFaultSeen = true
					anyFault = true
					env.Probes.inc("faults_in_sequence")
					if res.err == "" {
						out = append(out, vf("send-error-swallowed", "the socket write failed (%s) but Flush returned no error", d.Err))
					}
				}
				if !bytes.Equal(d.Data, buf) {
					class := "datagram-content"
					msg := fmt.Sprintf("datagram for destination %d has %d bytes, the message written since the previous Flush has %d bytes", c, len(d.Data), len(buf))
					if abandonedPrefix && len(d.Data) > len(buf) && bytes.HasSuffix(d.Data, buf) {
						class = "abandoned-prefix"
						msg = fmt.Sprintf("after a message that was abandoned following a refused write, the next datagram (destination %d) carries %d stale bytes of the abandoned message in front of the %d byte message", c, len(d.Data)-len(buf), len(buf))
					} else if nd > 1 && len(d.Data) > len(buf) && bytes.HasSuffix(d.Data, buf) {
						msg += fmt.Sprintf(" (it carries %d bytes of earlier messages in front: a Flush during which another destination failed left them buffered)", len(d.Data)-len(buf))
					}
					out = append(out, vf(class, "%s", msg))
					if class == "abandoned-prefix" {
						return out
					}
				}
			}
			if !failed && res.err != "" && nd == 1 {
				out = append(out, vf("flush-error", "Flush failed although the send succeeded: %s", res.err))
			}
			buf = nil
			refusedInMsg = false
			abandonedPrefix = false
			stale = 0
			if anyFault {
				env.Probes.inc("faults_in_sequence")
			}
		case "tclose":
			if res.err != "" && !sendFaultSeen {
				out = append(out, vf("close-error", "Close returned %q", res.err))
			}
			closed = true
		}
	}
	// no datagram beyond the flushes
	for c := 0; c < nd; c++ {
		if pos[c] < len(perConn[c]) {
			out = append(out, vf("extra-datagram", "destination %d received %d datagrams, %d flushes accounted for", c, len(perConn[c]), pos[c]))
		}
	}
	_ = strings.Contains
	return out
}

// checkC15Outage: whatever is reported after the last failed send is emitted
// ("... and the M3 reporter keeps emitting later batches"). What was in or
// around the failed datagrams is C13's business, not looked at here.
func checkC15Outage(env *Env) []Violation {
	a := analyseM3(env, true)
	a.match(env)
	lastFail := -1
	for _, d := range env.Net.Log {
		if d.Err != "" && d.Seq > lastFail {
			lastFail = d.Seq
		}
	}
	if lastFail < 0 {
		return a.out
	}
	env.Probes.inc("faults_in_sequence")
	for _, e := range a.exps {
		if e.obl != required || e.rec.Inv <= lastFail {
			continue
		}
		env.Probes.inc("messages_after_fault")
		if e.found == 0 {
			a.out = append(a.out, vf("later-batch-not-emitted", "%s %q value %d was reported after the last failed send (seq %d > %d) and before Close, and was never emitted: the reporter stopped emitting after the outage", e.kind, e.h.name, e.i, e.rec.Inv, lastFail))
			break
		}
	}
	return a.out
}

func payloadOf(op *Op) []byte {
	if op.K == "twb" {
		return []byte{byte(op.I)}
	}
	return payload(op)
}
