// Code generated from package time's export data; DO NOT EDIT BY HAND (see simtime/doc.go).
package simtime

import "time"

const ANSIC = time.ANSIC

var After = time.After

const April = time.April
const August = time.August

var Date = time.Date

const DateOnly = time.DateOnly
const DateTime = time.DateTime
const December = time.December

type Duration = time.Duration

const February = time.February

var FixedZone = time.FixedZone

const Friday = time.Friday
const Hour = time.Hour
const January = time.January
const July = time.July
const June = time.June
const Kitchen = time.Kitchen
const Layout = time.Layout

var LoadLocation = time.LoadLocation
var LoadLocationFromTZData = time.LoadLocationFromTZData
var Local = time.Local

type Location = time.Location

const March = time.March
const May = time.May
const Microsecond = time.Microsecond
const Millisecond = time.Millisecond
const Minute = time.Minute
const Monday = time.Monday

type Month = time.Month

const Nanosecond = time.Nanosecond

var NewTicker = time.NewTicker
var NewTimer = time.NewTimer

const November = time.November

const October = time.October

var Parse = time.Parse
var ParseDuration = time.ParseDuration

type ParseError = time.ParseError

var ParseInLocation = time.ParseInLocation

const RFC1123 = time.RFC1123
const RFC1123Z = time.RFC1123Z
const RFC3339 = time.RFC3339
const RFC3339Nano = time.RFC3339Nano
const RFC822 = time.RFC822
const RFC822Z = time.RFC822Z
const RFC850 = time.RFC850
const RubyDate = time.RubyDate
const Saturday = time.Saturday
const Second = time.Second
const September = time.September

var Since = time.Since

const Stamp = time.Stamp
const StampMicro = time.StampMicro
const StampMilli = time.StampMilli
const StampNano = time.StampNano
const Sunday = time.Sunday
const Thursday = time.Thursday

var Tick = time.Tick

type Ticker = time.Ticker
type Time = time.Time

const TimeOnly = time.TimeOnly

type Timer = time.Timer

const Tuesday = time.Tuesday

var UTC = time.UTC
var Unix = time.Unix

const UnixDate = time.UnixDate

var UnixMicro = time.UnixMicro
var UnixMilli = time.UnixMilli
var Until = time.Until

const Wednesday = time.Wednesday

type Weekday = time.Weekday
