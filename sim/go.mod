module verifsim

go 1.26.8
