package harness

// wlOpts steers the shared scope-level workload generator.
type wlOpts struct {
	tasks     [2]int // min, max number of worker tasks
	ops       [2]int
	scopes    int // number of distinct scope identities in play (1..len(smallScopes))
	names     []string
	wDerive   int
	wCounter  int
	wInc      int
	wGauge    int
	wUpd      int
	wTimer    int
	wRec      int
	wHist     int
	wRecH     int
	wClose    int
	wSleep    int
	wYield    int
	reacquire int // percent: after a close, request the same scope again
	values    []int64
	closer    int  // percent: a task that closes the root concurrently
	closers   int  // max number of concurrent closer tasks
	afterOps  int  // operations a task performs after its closeroot (C08)
	ownGauge  bool // each gauge identity is updated by one task only
}

type wlTask struct {
	ops    []Op
	nextS  int
	nextM  int
	scopes []wlScope
	byKind map[string][]int
	nUpd   int
}

type wlScope struct{ v, def int }

func (t *wlTask) derive(defs []scopeDef, di int) int {
	d := defs[di]
	switch d.k {
	case "root":
		return 0
	case "sub":
		t.ops = append(t.ops, Op{K: "sub", S: 0, D: t.nextS, Name: d.name})
	case "tag":
		t.ops = append(t.ops, Op{K: "tag", S: 0, D: t.nextS, Tags: copyTags(d.tags)})
	}
	t.nextS++
	return t.nextS - 1
}

func genWorkload(g *Gen, p *Program, o wlOpts) {
	c := &p.Cfg
	nScopes := g.Range(1, o.scopes)
	defs := make([]scopeDef, nScopes)
	for i := range defs {
		defs[i] = smallScopes[g.Intn(len(smallScopes))]
	}
	if len(o.names) == 0 {
		o.names = []string{"m0", "m1"}
	}
	if len(o.values) == 0 {
		o.values = posMenu
	}
	nTasks := g.Range(o.tasks[0], o.tasks[1])
	uniq := 0
	for ti := 0; ti < nTasks; ti++ {
		t := &wlTask{nextS: 1, nextM: 1, byKind: map[string][]int{}}
		n := g.Range(o.ops[0], o.ops[1])
		ensureScope := func() wlScope {
			if len(t.scopes) == 0 {
				di := g.Intn(nScopes)
				t.scopes = append(t.scopes, wlScope{t.derive(defs, di), di})
			}
			return t.scopes[g.Intn(len(t.scopes))]
		}
		metric := func(kind string) {
			s := ensureScope()
			name := o.names[g.Intn(len(o.names))]
			if kind == "gauge" && o.ownGauge {
				name = "g" + string(rune('A'+ti))
			}
			op := Op{K: kind, S: s.v, M: t.nextM, Name: kind[:1] + name}
			if kind == "hist" {
				op.B = &BucketSpec{Bits: []uint64{f64bits(1), f64bits(2)}}
			}
			t.ops = append(t.ops, op)
			t.byKind[kind] = append(t.byKind[kind], t.nextM)
			t.nextM++
		}
		for guard := 0; len(t.ops) < n && guard < 200; guard++ {
			switch g.weighted(o.wDerive, o.wCounter, o.wInc, o.wGauge, o.wUpd, o.wTimer, o.wRec, o.wHist, o.wRecH, o.wClose, o.wSleep, o.wYield) {
			case 0:
				di := g.Intn(nScopes)
				t.scopes = append(t.scopes, wlScope{t.derive(defs, di), di})
			case 1:
				metric("counter")
			case 2:
				if ms := t.byKind["counter"]; len(ms) > 0 {
					t.ops = append(t.ops, Op{K: "inc", M: ms[g.Intn(len(ms))], I: o.values[g.Intn(len(o.values))]})
				}
			case 3:
				metric("gauge")
			case 4:
				if ms := t.byKind["gauge"]; len(ms) > 0 {
					uniq++
					t.ops = append(t.ops, Op{K: "upd", M: ms[g.Intn(len(ms))], F: uniqueFloatBits(g, uniq)})
				}
			case 5:
				metric("timer")
			case 6:
				if ms := t.byKind["timer"]; len(ms) > 0 {
					uniq++
					t.ops = append(t.ops, Op{K: "rec", M: ms[g.Intn(len(ms))], I: int64(uniq)*1000 + int64(g.Intn(7))})
				}
			case 7:
				metric("hist")
			case 8:
				if ms := t.byKind["hist"]; len(ms) > 0 {
					t.ops = append(t.ops, Op{K: "recv", M: ms[g.Intn(len(ms))], F: f64bits(pick(g, 0.5, 1, 1.5, 2, 3))})
				}
			case 9:
				if len(t.scopes) == 0 {
					continue
				}
				s := t.scopes[g.Intn(len(t.scopes))]
				if s.v == 0 {
					continue
				}
				t.ops = append(t.ops, Op{K: "close", S: s.v})
				if g.Bool(o.reacquire) {
					t.scopes = append(t.scopes, wlScope{t.derive(defs, s.def), s.def})
				}
			case 10:
				if c.IntervalNs > 0 {
					t.ops = append(t.ops, Op{K: "sleep", I: pick(g, c.IntervalNs/2, c.IntervalNs, 3*c.IntervalNs/2)})
				}
			case 11:
				t.ops = append(t.ops, Op{K: "yield"})
			}
		}
		p.Tasks = append(p.Tasks, t.ops)
	}
	if g.Bool(o.closer) {
		nc := 1
		if o.closers > 1 {
			nc = g.Range(1, o.closers)
		}
		for i := 0; i < nc; i++ {
			var ops []Op
			if c.IntervalNs > 0 && g.Bool(70) {
				ops = append(ops, Op{K: "sleep", I: pick(g, c.IntervalNs/2, c.IntervalNs, c.IntervalNs+1, 2*c.IntervalNs)})
			}
			for k := g.Intn(4); k > 0; k-- {
				ops = append(ops, Op{K: "yield"})
			}
			ops = append(ops, Op{K: "closeroot"})
			if g.Bool(30) {
				ops = append(ops, Op{K: "closeroot"})
			}
			p.Tasks = append(p.Tasks, ops)
		}
	}
}

func settleEpilogue(g *Gen, p *Program) {
	if p.Cfg.IntervalNs > 0 && g.Bool(60) {
		p.Epilogue = append(p.Epilogue, Op{K: "settle"}, Op{K: "idlepass"})
		if g.Bool(50) {
			p.Epilogue = append(p.Epilogue, Op{K: "closeroot"})
		}
	} else {
		p.Epilogue = append(p.Epilogue, Op{K: "settle", N: 1})
	}
}
