package simrt

import (
	"fmt"
	"math"
	"reflect"
	"sort"
)

// ZeroKV returns zero values of a map's key and element types; rewritten range
// loops use it to declare their loop variables once, outside the loop.
func ZeroKV[M ~map[K]V, K comparable, V any](m M) (K, V) {
	var k K
	var v V
	return k, v
}

// MapKeys returns the keys of m in the order a rewritten `for k, v := range m`
// visits them: a snapshot, sorted, then permuted by recorded decisions.
func MapKeys[M ~map[K]V, K comparable, V any](m M) []K {
	keys := make([]K, 0, len(m))
	for k := range m {
		keys = append(keys, k)
	}
	s := simTask()
	if s == nil || len(keys) < 2 {
		return keys
	}
	sortKeys(keys)
	n := len(keys)
	permuted := false
	for i := 0; i < n-1; i++ {
		j := i + s.Ch.Choose(n-i, "range")
		if j != i {
			keys[i], keys[j] = keys[j], keys[i]
			permuted = true
		}
	}
	s.NoteMapRange(permuted)
	return keys
}

func sortKeys[K comparable](keys []K) {
	switch ks := any(keys).(type) {
	case []string:
		sort.Strings(ks)
	case []int:
		sort.Ints(ks)
	case []int64:
		sort.Slice(ks, func(i, j int) bool { return ks[i] < ks[j] })
	case []uint64:
		sort.Slice(ks, func(i, j int) bool { return ks[i] < ks[j] })
	case []float64:
		sort.Float64s(ks) // NaNs first; they are told apart by nothing a program can see
	default:
		// Keys without a natural order (structs, pointers, interfaces): order them
		// by a rendering of their contents in which addresses do not appear.
		// Pointer keys are rendered through what they point at; two keys that
		// render alike keep the runtime's (unrepeatable) relative order, which
		// the run notes so that the evidence can say how often that happened.
		// Pointers to objects whose creation the run has seen (simrt.Born, placed by
		// simgen at every &T{...}) are ordered by birth, which is part of the
		// replayable schedule and tells apart objects that look alike. Only keys
		// without a birth number are rendered; under the race detector the
		// rendering does not follow pointers (it would read the objects' fields
		// without the locks their owners use, and be reported).
		canon := make([]string, len(keys))
		s := simTask()
		for i := range keys {
			v := reflect.ValueOf(&keys[i]).Elem()
			if s != nil {
				pv := v
				if pv.Kind() == reflect.Interface && !pv.IsNil() {
					pv = pv.Elem()
				}
				if pv.Kind() == reflect.Ptr && !pv.IsNil() {
					if b := s.birthOf(pv.Pointer()); b > 0 {
						canon[i] = fmt.Sprintf("born%012d", b)
						continue
					}
				}
			}
			canon[i] = canonical(v, 3)
		}
		idx := make([]int, len(keys))
		for i := range idx {
			idx[i] = i
		}
		// Ties between pointers are broken by address: for pointers into one array
		// or slice (&buckets[i]) that is the order of the indices, which repeats;
		// for anything else it is as unrepeatable as the runtime's order, and the
		// range is counted as ambiguous below either way.
		addr := make([]uintptr, len(keys))
		for i := range keys {
			if v := reflect.ValueOf(&keys[i]).Elem(); v.Kind() == reflect.Ptr && !v.IsNil() {
				addr[i] = v.Pointer()
			}
		}
		sort.SliceStable(idx, func(a, b int) bool {
			if canon[idx[a]] != canon[idx[b]] {
				return canon[idx[a]] < canon[idx[b]]
			}
			return addr[idx[a]] < addr[idx[b]]
		})
		ties := false
		out := make([]K, len(keys))
		for i, j := range idx {
			out[i] = keys[j]
			if i > 0 && canon[idx[i-1]] == canon[j] {
				ties = true
			}
		}
		copy(keys, out)
		if ties {
			if s := simTask(); s != nil {
				s.noteAmbiguous()
			}
		}
	}
}

// canonical renders a value without any address: basic values as they are,
// strings quoted, maps with sorted keys, pointers and interfaces through their
// target (down to a small depth), everything else by its kind.
func canonical(v reflect.Value, depth int) string {
	if !v.IsValid() {
		return "<nil>"
	}
	switch v.Kind() {
	case reflect.Bool:
		return fmt.Sprint(v.Bool())
	case reflect.Int, reflect.Int8, reflect.Int16, reflect.Int32, reflect.Int64:
		return fmt.Sprint(v.Int())
	case reflect.Uint, reflect.Uint8, reflect.Uint16, reflect.Uint32, reflect.Uint64:
		return fmt.Sprint(v.Uint())
	case reflect.Float32, reflect.Float64:
		return fmt.Sprintf("%x", math.Float64bits(v.Float()))
	case reflect.String:
		return fmt.Sprintf("%q", v.String())
	case reflect.Ptr, reflect.Interface:
		if v.IsNil() {
			return "nil"
		}
		if depth == 0 || (RaceBuild && v.Kind() == reflect.Ptr) {
			return "&"
		}
		return "&" + canonical(v.Elem(), depth-1)
	case reflect.Struct:
		if depth == 0 {
			return "{}"
		}
		out := "{"
		for i := 0; i < v.NumField(); i++ {
			out += canonical(v.Field(i), depth-1) + ","
		}
		return out + "}"
	case reflect.Array, reflect.Slice:
		if depth == 0 || v.Len() > 64 {
			return fmt.Sprintf("[%d]", v.Len())
		}
		out := "["
		for i := 0; i < v.Len(); i++ {
			out += canonical(v.Index(i), depth-1) + ","
		}
		return out + "]"
	case reflect.Map:
		if depth == 0 || v.Len() > 64 {
			return fmt.Sprintf("map[%d]", v.Len())
		}
		var parts []string
		it := v.MapRange()
		for it.Next() {
			parts = append(parts, canonical(it.Key(), depth-1)+":"+canonical(it.Value(), depth-1))
		}
		sort.Strings(parts)
		return "map" + fmt.Sprint(parts)
	}
	return v.Kind().String()
}

// MapIter drives a rewritten `for k, v := range m`.
type MapIter[K comparable, V any] struct {
	m    map[K]V
	keys []K
	i    int
	k    K
	v    V
	nan  []V // values stored under keys that are not equal to themselves (NaN)
}

// NewMapIter snapshots and orders the keys of m.
func NewMapIter[M ~map[K]V, K comparable, V any](m M) *MapIter[K, V] {
	it := &MapIter[K, V]{m: m, keys: MapKeys(m)}
	for _, k := range it.keys {
		if k != k {
			// a NaN key cannot be looked up again: keep the values of such entries,
			// in an order that does not depend on the runtime's iteration order
			for k2, v := range m {
				if k2 != k2 {
					it.nan = append(it.nan, v)
				}
			}
			sort.Slice(it.nan, func(i, j int) bool { return fmt.Sprintf("%#v", it.nan[i]) < fmt.Sprintf("%#v", it.nan[j]) })
			break
		}
	}
	return it
}

// Next advances to the next key that is still present.
func (it *MapIter[K, V]) Next() bool {
	for it.i < len(it.keys) {
		k := it.keys[it.i]
		it.i++
		if k != k {
			if len(it.nan) == 0 {
				continue
			}
			it.k, it.v = k, it.nan[0]
			it.nan = it.nan[1:]
			return true
		}
		if v, ok := it.m[k]; ok {
			it.k, it.v = k, v
			return true
		}
	}
	return false
}

// Key returns the current key.
func (it *MapIter[K, V]) Key() K { return it.k }

// Val returns the current value.
func (it *MapIter[K, V]) Val() V { return it.v }

//go:norace
func (s *Sim) noteAmbiguous() { s.Stats.AmbiguousRanges++ }
